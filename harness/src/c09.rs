//! C09 — reported locations point at the right source text.
//!
//! The printer (`render`) records the character position of every token it emits and which
//! tokens make up which element; those are the expected spans.  The observed spans come from the
//! public API (`observe::observe_spans`) and from diagnostics.

use crate::c02::{render_layout, split_input};
use crate::compile::*;
use crate::engine::*;
use crate::gen::{gen_program, GenCfg};
use crate::model::*;
use crate::observe::{observe_program, observe_spans, SpanObs};
use crate::refcheck::Resolver;
use crate::render::{Pos, Rendered};
use crate::{check, fail};
use arbitrary::Unstructured;
use serde_json::json;
use std::collections::BTreeMap;

/// Whether the span of an escaped identifier may also start behind its backslash (probe of the
/// current behaviour: it never does, so the spelling as written - escape included - is demanded).
const LENIENT_ESCAPED: bool = false;

pub struct C09;

fn file_index(path: &str) -> usize {
    // paths are `f<idx>/...`
    path[1..].split('/').next().and_then(|s| s.parse().ok()).unwrap_or(0)
}

pub fn line_lengths(text: &str) -> Vec<usize> {
    // characters per line, not counting the terminating '\n' ('\r' counts: it is a character)
    text.split('\n').map(|l| l.chars().count()).collect()
}

/// (1) well-formedness of one span against its file text.
pub fn well_formed(s: &SpanObs, lines: &[usize], what: &str) -> CaseResult {
    let inside = |p: Pos| p.0 >= 1 && p.0 <= lines.len() && p.1 >= 1 && p.1 <= lines[p.0 - 1] + 1;
    check!(
        inside(s.start) && inside(s.end),
        format!("span-outside-file/{}", kind_of(what)),
        "{what}: span {:?}..{:?} is not inside its file ({} lines)",
        s.start,
        s.end,
        lines.len()
    );
    check!(
        s.start <= s.end,
        format!("span-start-after-end/{}", kind_of(what)),
        "{what}: span starts at {:?} after its end {:?}",
        s.start,
        s.end
    );
    Ok(())
}

/// structural kind of a path: `f0/d1/m2/type/0` -> `d/m/type/n`
fn kind_of(path: &str) -> String {
    path.split('/')
        .skip(1)
        .map(|seg| {
            let alpha: String = seg.chars().take_while(|c| c.is_ascii_alphabetic()).collect();
            if alpha.is_empty() {
                "n".to_owned()
            } else {
                alpha
            }
        })
        .collect::<Vec<_>>()
        .join("/")
}

pub fn check_spans(cx: &mut CaseCtx, p: &Program, rendered: &[Rendered], state: &slicec::compilation_state::CompilationState) -> CaseResult {
    let spans = observe_spans(state, p);
    let lines: Vec<Vec<usize>> = rendered.iter().map(|r| line_lengths(&r.text)).collect();
    let src = |fi: usize| -> String { rendered[fi].text.clone() };

    // (1) every span is well formed
    for (path, s) in spans
        .elems
        .iter()
        .chain(spans.ranges.iter())
        .chain(spans.types.iter())
        .chain(spans.attrs.iter())
    {
        let fi = file_index(path);
        check!(
            s.file == format!("string-{fi}"),
            "span-wrong-file",
            "{path}: span names file {} (expected string-{fi})",
            s.file
        );
        well_formed(s, &lines[fi], path)?;
    }
    for (path, parts) in &spans.docs {
        let fi = file_index(path);
        for (label, s) in parts {
            well_formed(s, &lines[fi], &format!("{path}/doc/{label}"))?;
        }
    }

    // (2) tightness
    // identifiers, tags, values: exactly the token range (for an escaped identifier: backslash included)
    for (path, (a, b)) in rendered.iter().flat_map(|r| r.ranges.iter()) {
        if path.ends_with("/rtuple") {
            continue;
        }
        let fi = file_index(path);
        let r = &rendered[fi];
        let Some(s) = spans.ranges.get(path) else {
            fail!(format!("span-missing/{}", kind_of(path)), "{path}: no span observed");
        };
        let start = r.tok_start(*a);
        let end = r.tok_end(*b);
        let escaped = r.toks[*a].text.starts_with('\\');
        let start_ok = s.start == start || (LENIENT_ESCAPED && escaped && s.start == (start.0, start.1 + 1));
        check!(
            start_ok && s.end == end,
            format!("span-not-tight/{}", kind_of(path)),
            "{path}: expected {:?}..{:?} (token {:?}), observed {:?}..{:?}\n--- source ---\n{}",
            start,
            end,
            r.toks[*a].text,
            s.start,
            s.end,
            src(fi)
        );
    }
    // attributes: directive ... closing parenthesis
    for (path, (a, b)) in rendered.iter().flat_map(|r| r.attrs.iter()) {
        let fi = file_index(path);
        let r = &rendered[fi];
        let Some(s) = spans.attrs.get(path) else {
            fail!(format!("span-missing/{}", kind_of(path)), "{path}: no attribute span observed");
        };
        let start = r.tok_start(*a);
        let escaped = r.toks[*a].text.starts_with('\\');
        let start_ok = s.start == start || (LENIENT_ESCAPED && escaped && s.start == (start.0, start.1 + 1));
        check!(
            start_ok && s.end == r.tok_end(*b),
            format!("span-not-tight/{}", kind_of(path)),
            "{path}: attribute expected {:?}..{:?}, observed {:?}..{:?}\n--- source ---\n{}",
            start,
            r.tok_end(*b),
            s.start,
            s.end,
            src(fi)
        );
    }
    // type expressions: first token (of the expression or of its attributes) ... last token
    for (path, t) in rendered.iter().flat_map(|r| r.types.iter()) {
        let fi = file_index(path);
        let r = &rendered[fi];
        let Some(s) = spans.types.get(path) else {
            // nested parts below a reference that failed to resolve are not observable
            continue;
        };
        let starts = [r.tok_start(t.first), r.tok_start(t.first_after_attrs)];
        let esc = |i: usize| r.toks[i].text.starts_with('\\');
        let start_ok = starts.contains(&s.start)
            || (esc(t.first_after_attrs) && s.start == (starts[1].0, starts[1].1 + 1));
        check!(
            start_ok && s.end == r.tok_end(t.last),
            format!("span-not-tight/{}", kind_of(path)),
            "{path}: type expression expected {:?}..{:?}, observed {:?}..{:?}\n--- source ---\n{}",
            starts[0],
            r.tok_end(t.last),
            s.start,
            s.end,
            src(fi)
        );
    }
    // elements: start exactly at the first token of the declaration proper, include the name, end at
    // the end of a token of the element
    for (path, e) in rendered.iter().flat_map(|r| r.elems.iter()) {
        let fi = file_index(path);
        let r = &rendered[fi];
        let Some(s) = spans.elems.get(path) else {
            fail!(format!("span-missing/{}", e.kind), "{path}: no span observed for the {}", e.kind);
        };
        let start = r.tok_start(e.first);
        let escaped = r.toks[e.first].text.starts_with('\\');
        let start_ok = s.start == start || (LENIENT_ESCAPED && escaped && s.start == (start.0, start.1 + 1));
        let prelude = if e.prelude_first.is_some() || rendered[fi].docs.contains_key(path) { "with-prelude" } else { "no-prelude" };
        if !start_ok {
            // where does it start instead?
            let where_ = if s.start < start { "before-first-token" } else { "after-first-token" };
            fail!(
                format!("span.start/{}/{}/{}", e.kind, prelude, where_),
                "{path}: the {} must start at {:?} (token {:?}), observed start {:?}\n--- source ---\n{}",
                e.kind,
                start,
                r.toks[e.first].text,
                s.start,
                src(fi)
            );
        }
        let min_end_tok = e.name.unwrap_or(e.first);
        let ends: Vec<Pos> = (min_end_tok..=e.last).map(|i| r.tok_end(i)).collect();
        if !ends.contains(&s.end) {
            let last_end = r.tok_end(e.last);
            let where_ = if s.end > last_end {
                "beyond-last-token"
            } else if s.end < r.tok_end(min_end_tok) {
                "before-name-end"
            } else {
                "not-at-token-end"
            };
            fail!(
                format!("span.end/{}/{}", e.kind, where_),
                "{path}: the {} must end at the end of one of its tokens (name end {:?} .. last end {:?}), observed end {:?}\n--- source ---\n{}",
                e.kind,
                r.tok_end(min_end_tok),
                last_end,
                s.end,
                src(fi)
            );
        }
    }
    // doc comments: every part lies within the comment's lines, at or after the slashes
    for (path, parts) in &spans.docs {
        let fi = file_index(path);
        let Some(doc_lines) = rendered[fi].docs.get(path) else {
            fail!("doc-span-without-comment", "{path}: a doc comment was observed where none was written");
        };
        let first = doc_lines.first().unwrap();
        let last = doc_lines.last().unwrap();
        for (label, s) in parts {
            let within = |p: Pos| -> bool {
                // on one of the comment's rows, between the slashes and the end of that line's text
                doc_lines
                    .iter()
                    .any(|l| l.slashes.0 == p.0 && p.1 >= l.slashes.1 && p.1 <= l.line_end.1)
            };
            check!(
                within(s.start) && within(s.end) && s.start >= first.slashes && s.end <= last.line_end,
                format!("doc-span-outside-comment/{}", label.split('/').map(|x| x.trim_end_matches(char::is_numeric)).collect::<Vec<_>>().join("/")),
                "{path}: doc comment part {label} spans {:?}..{:?}, outside the comment lines {:?}..{:?}\n--- source ---\n{}",
                s.start,
                s.end,
                first.slashes,
                last.text_end,
                src(fi)
            );
        }
    }
    // ... and on the rows of its own section: the overview on the overview's lines, a tag (with its
    // identifier, message and links) on the tag line and its continuation lines - not on the line
    // of the tag that follows
    let models: BTreeMap<String, &crate::doc::DocModel> = crate::c16::commentables(p)
        .into_iter()
        .filter_map(|c| c.2.docm.as_deref().map(|m| (c.0, m)))
        .collect();
    for (path, parts) in &spans.docs {
        let fi = file_index(path);
        let (Some(doc_lines), Some(m)) = (rendered[fi].docs.get(path), models.get(path)) else { continue };
        if doc_lines.len() != m.lines().len() {
            continue;
        }
        // section name -> (first row, last row)
        let mut sections: BTreeMap<String, (usize, usize)> = BTreeMap::new();
        let mut at = 0usize;
        if !m.overview.is_empty() {
            sections.insert("overview".into(), (doc_lines[0].slashes.0, doc_lines[m.overview.len() - 1].slashes.0));
            at = m.overview.len();
        }
        let (mut np, mut nr, mut ns) = (0, 0, 0);
        for t in &m.tags {
            let (name, len) = match t {
                crate::doc::Tag::Param { cont, .. } => {
                    np += 1;
                    (format!("param{}", np - 1), 1 + cont.len())
                }
                crate::doc::Tag::Returns { cont, .. } => {
                    nr += 1;
                    (format!("returns{}", nr - 1), 1 + cont.len())
                }
                crate::doc::Tag::See { .. } => {
                    ns += 1;
                    (format!("see{}", ns - 1), 1)
                }
            };
            sections.insert(name, (doc_lines[at].slashes.0, doc_lines[at + len - 1].slashes.0));
            at += len;
        }
        for (label, sp) in parts {
            let section = label.split('/').next().unwrap_or("");
            let Some((r0, r1)) = sections.get(section) else { continue };
            cx.label("doc-section-rows-checked");
            check!(
                sp.start.0 >= *r0 && sp.end.0 <= *r1,
                format!("doc-span-outside-its-section/{}", label.split('/').map(|x| x.trim_end_matches(char::is_numeric)).collect::<Vec<_>>().join("/")),
                "{path}: doc comment part {label} spans {:?}..{:?}, but its section occupies rows {r0}..{r1}\n--- source ---\n{}",
                sp.start,
                sp.end,
                src(fi)
            );
        }
    }
    cx.label("spans-checked");
    Ok(())
}

fn case(cx: &mut CaseCtx, input: Input, layouts: usize, cfg: &GenCfg) -> CaseResult {
    let (lay_bytes, prog_bytes) = split_input(input.bytes());
    let mut u = Unstructured::new(prog_bytes);
    let (p, _labels) = gen_program(&mut u, cfg);
    cx.set_key(&p);
    let mut resolver = Resolver::new(&p);
    if resolver.resolve_program().is_none() || resolver.ambiguous_hit {
        cx.label("generator-produced-unresolvable-program");
        return Ok(());
    }
    for l in 0..layouts {
        // layout 0 with all-zero bytes is canonical; make layout numbering start at 1 so that the
        // first layout is already a free one unless the input shrank to zeros
        let (mut texts, mut rendered) = render_layout(&p, lay_bytes, l);
        if l % 2 == 1 && !lay_bytes.is_empty() {
            // every other layout: preprocessor lines in front of definitions (rows after removed
            // blocks, the first line of a later source block indented unlike its directive)
            let mut n = 0;
            for (k, r) in rendered.iter_mut().enumerate() {
                let rot = k % lay_bytes.len();
                let choices: Vec<u8> = lay_bytes[rot..].iter().chain(lay_bytes[..rot].iter()).copied().collect();
                n += crate::render::insert_preprocessor_blocks(r, &choices);
            }
            if n > 0 {
                texts = rendered.iter().map(|r| r.text.clone()).collect();
            }
        }
        let mut interesting = false;
        for r in &rendered {
            for lab in &r.labels {
                cx.label(*lab);
                if matches!(*lab, "tab" | "crlf" | "non-ascii-before" | "unicode-space" | "preprocessor-block-before-definition") {
                    interesting = true;
                }
            }
        }
        cx.nontrivial |= interesting && p.def_count() >= 1;
        if l == layouts - 1 {
            cx.sample_with(|| json!({"files": texts}));
        }
        let state = compile_strings(&texts, None);
        if state.diagnostics.has_errors() {
            // C02's subject; not judged here
            cx.label("skipped-compile-error");
            return Ok(());
        }
        if observe_program(&state).def_count() != p.def_count() {
            cx.label("skipped-shape-mismatch");
            return Ok(());
        }
        check_spans(cx, &p, &rendered, &state)?;
    }
    Ok(())
}

/// (4) Snippets: every span the visitor shows, spans joined from two of them (as validators do with
/// `a.span() + b.span()`) and zero-width positions are attached to synthetic diagnostics and notes,
/// written by the real emitter in human format, and the output is re-parsed against the reference
/// in `c14::check_snippet`: right line numbers, the source lines with tabs expanded, and an
/// underline that covers exactly the display cells of the spanned characters.
fn snippets_case(cx: &mut CaseCtx, input: Input, cfg: &GenCfg) -> CaseResult {
    use slicec::diagnostics::{Diagnostic, Error};
    use slicec::slice_file::{Location, Span};
    let (lay_bytes, prog_bytes) = split_input(input.bytes());
    let mut u = Unstructured::new(prog_bytes);
    let (p, _labels) = gen_program(&mut u, cfg);
    cx.set_key(&(&p, lay_bytes));
    let (texts, rendered) = render_layout(&p, lay_bytes, 1);
    for r in &rendered {
        for lab in &r.labels {
            cx.label(*lab);
        }
    }
    cx.sample_with(|| json!({"files": texts}));
    if std::env::var_os("VCHECK_NO_COMPILE").is_some() {
        return Ok(());
    }
    let state = compile_strings(&texts, None);
    let mut col = SpanCollector::default();
    for f in &state.files {
        f.visit_with(&mut col);
    }
    // spans of the real diagnostics too (programs of this family may be ill-formed)
    let mut spans: Vec<Span> = Vec::new();
    for (_, s) in &col.spans {
        spans.push(Span::new(Location { row: s.start.0, col: s.start.1 }, Location { row: s.end.0, col: s.end.1 }, &s.file));
    }
    let text_of = |name: &str| -> Option<String> {
        state.files.iter().position(|f| f.relative_path == name).and_then(|i| texts.get(i).cloned())
    };
    // Only spans that are well-formed for their file are in the emitter's domain; the others are
    // the first part of this property's business (family `programs`).
    spans.retain(|s| {
        let Some(t) = text_of(&s.file) else { return false };
        let so: SpanObs = s.into();
        well_formed(&so, &line_lengths(&t), "snippet").is_ok()
    });
    if spans.is_empty() {
        cx.label("no-spans");
        return Ok(());
    }
    // joined spans (same file) and zero-width positions
    let n = spans.len();
    let mut extra: Vec<Span> = Vec::new();
    for j in 0..n {
        for k in [1usize, 3, 7] {
            let (a, b) = (&spans[j], &spans[(j + k) % n]);
            if a.file == b.file {
                extra.push(a + b);
            }
        }
        extra.push(Span::new(spans[j].start, spans[j].start, &spans[j].file));
        extra.push(Span::new(spans[j].end, spans[j].end, &spans[j].file));
    }
    spans.extend(extra);
    spans.dedup();
    // classification
    let mut interesting = false;
    let mut seen: std::collections::BTreeSet<&'static str> = Default::default();
    for s in &spans {
        let t = text_of(&s.file).unwrap_or_default();
        let lines: Vec<&str> = t.lines().collect();
        if s.end.row > s.start.row {
            seen.insert("multi-line-span");
            let inner = (s.start.row..s.end.row).filter_map(|r| lines.get(r - 1));
            for l in inner {
                if !l.is_ascii() {
                    seen.insert("multi-line-span/non-ascii-on-inner-line");
                    interesting = true;
                }
                if l.contains('\t') {
                    seen.insert("multi-line-span/tab-on-inner-line");
                    interesting = true;
                }
            }
        } else if let Some(l) = lines.get(s.start.row - 1) {
            let before: String = l.chars().take(s.start.col - 1).collect();
            if !before.is_ascii() {
                seen.insert("single-line-span/non-ascii-before");
                interesting = true;
            }
            if before.contains('\t') {
                seen.insert("single-line-span/tab-before");
                interesting = true;
            }
            if s.start == s.end {
                seen.insert("zero-width-span");
            }
        }
    }
    for l in seen {
        cx.label(l);
    }
    cx.nontrivial = interesting;
    let diags: Vec<Diagnostic> = spans
        .iter()
        .enumerate()
        .map(|(i, s)| {
            let d = Diagnostic::new(Error::Syntax { message: format!("probe {i}") }).set_span(s);
            // every third one also carries a note with the span of a neighbour
            if i % 3 == 0 {
                d.add_note(format!("note {i}"), Some(&spans[(i + 1) % spans.len()]))
            } else {
                d
            }
        })
        .collect();
    let expected = crate::c14::expectations(&diags);
    let options = slicec::slice_options::SliceOptions { disable_color: true, ..Default::default() };
    console::set_colors_enabled(false);
    console::set_colors_enabled_stderr(false);
    let mut out: Vec<u8> = Vec::new();
    {
        let mut emitter = slicec::diagnostic_emitter::DiagnosticEmitter::new(&mut out, &options, &state.files);
        if let Err(e) = emitter.emit_diagnostics(diags) {
            fail!("snippet/emitter-io-error", "{e}");
        }
    }
    let stream = match String::from_utf8(out) {
        Ok(s) => s,
        Err(_) => fail!("snippet/invalid-utf8", "the emitter wrote invalid UTF-8"),
    };
    match crate::c14::check_human(&stream, &expected, &text_of) {
        Ok(_) => {}
        Err(f) => return Err(Fail::new(format!("snippet/{}", f.class), f.detail)),
    }
    cx.label("snippets-checked");
    Ok(())
}

/// Text region (start of the first token, prelude included, to the end of the last token) of the
/// element that `path` names, or of the nearest enclosing element the printer recorded.
fn region_of(rendered: &[Rendered], path: &str, levels_up: usize) -> Option<(usize, Pos, Pos)> {
    let fi = file_index(path);
    let r = rendered.get(fi)?;
    let mut cur = path.to_owned();
    let mut up = levels_up;
    loop {
        if let Some(e) = r.elems.get(&cur) {
            if up == 0 {
                let first = e.prelude_first.unwrap_or(e.first).min(e.first);
                return Some((fi, r.tok_start(first), r.tok_end(e.last)));
            }
            up -= 1;
        }
        match cur.rsplit_once('/') {
            Some((parent, _)) if parent.contains('/') => cur = parent.to_owned(),
            _ => {
                // the file itself
                let last = r.toks.len().checked_sub(1)?;
                return Some((fi, (1, 1), r.tok_end(last)));
            }
        }
    }
}

/// (3) A diagnostic about a defect points into the text of the offending element.  Programs with
/// injected rule violations (C04's catalogue) in free layouts; the reference rule checker says
/// which element violates which rule, the printer where that element's text is.
fn diagnostics_case(cx: &mut CaseCtx, input: Input, cfg: &GenCfg) -> CaseResult {
    use crate::gen::pick;
    use crate::inject::{inject, CATALOGUE};
    let (lay_bytes, prog_bytes) = split_input(input.bytes());
    let mut u = Unstructured::new(prog_bytes);
    let k = 1 + pick(&mut u, 3);
    let which: Vec<usize> = (0..k).map(|_| pick(&mut u, CATALOGUE.len())).collect();
    let (mut p, _labels) = gen_program(&mut u, cfg);
    for w in which {
        if inject(&mut p, w, &mut u) {
            cx.label(format!("inj:{}", CATALOGUE[w % CATALOGUE.len()]));
        }
    }
    p.fill_effective_values();
    cx.set_key(&(&p, lay_bytes));
    let report = crate::rules::check_program(&p);
    let (texts, rendered) = render_layout(&p, lay_bytes, 1);
    cx.sample_with(|| json!({"files": texts, "violated": report.rules()}));
    if std::env::var_os("VCHECK_NO_COMPILE").is_some() {
        return Ok(());
    }
    let state = compile_strings(&texts, None);
    let paths: Vec<String> = state.files.iter().map(|f| f.relative_path.clone()).collect();
    let diags = diagnostics_of(state, &Default::default());
    let file_no = |name: &str| paths.iter().position(|p| p == name);
    let mut judged = 0;
    for d in &diags {
        // (1) for diagnostics and notes: inside the file, ordered
        for (what, sp) in std::iter::once(("diagnostic", &d.span)).chain(d.notes.iter().map(|n| ("note", &n.1))) {
            if let Some((start, end, file)) = sp {
                let Some(fi) = file_no(file) else {
                    fail!(format!("diagnostic-span/unknown-file/{}", d.code), "{what} of {} names file {file:?}", d.code);
                };
                let so = SpanObs { start: *start, end: *end, file: file.clone() };
                well_formed(&so, &line_lengths(&texts[fi]), &format!("f{fi}/{what}/{}", d.code))?;
            }
        }
        if d.level != "error" {
            continue;
        }
        let Some((start, end, file)) = &d.span else { continue };
        let Some(fi) = file_no(file) else { continue };
        let mut cands: Vec<crate::rules::Violation> = report.violations.iter().filter(|v| v.code == d.code && !v.at.is_empty()).cloned().collect();
        if d.code == "E032" {
            // cycles: any definition on a containment cycle; for inheritance loops any interface
            for (fi2, f) in p.files.iter().enumerate() {
                let scope = f.module.as_ref().map(|m| m.scope()).unwrap_or_default();
                for (di, def) in f.defs.iter().enumerate() {
                    let on = report.on_cycle.contains(&crate::refcheck::join(&scope, def.name()));
                    let iface_loop = report.rules().contains("R-INHERIT-LOOP") && matches!(def, DefM::Interface(_));
                    if on || iface_loop {
                        cands.push(crate::rules::Violation { rule: if on { "R-CYCLE" } else { "R-INHERIT-LOOP" }, code: "E032", at: format!("f{fi2}/d{di}") });
                    }
                }
            }
        }
        let cands: Vec<&crate::rules::Violation> = cands.iter().collect();
        if cands.is_empty() {
            cx.label(format!("diag-unmatched/{}", d.code));
            continue;
        }
        // best classification over the candidates
        let mut best = 3usize;
        let mut best_rule = cands[0].rule;
        for v in &cands {
            for lvl in 0..3 {
                if let Some((vf, a, b)) = region_of(&rendered, &v.at, lvl) {
                    if vf == fi && a <= *start && *end <= b {
                        if lvl < best {
                            best = lvl;
                            best_rule = v.rule;
                        }
                        break;
                    }
                }
            }
        }
        judged += 1;
        let word = ["inside-element", "inside-parent", "inside-grandparent", "elsewhere"][best];
        cx.label(format!("diag-span/{}/{}/{word}", best_rule, d.code));
        check!(
            best == 0,
            format!("diagnostic-outside-offending-element/{}/{}/{word}", best_rule, d.code),
            "{} ({:?}) is reported at {start:?}..{end:?} of file {fi}, which is not inside the text of any element that violates the rule; offending: {:?}\n--- file {fi} ---\n{}",
            d.code,
            d.message,
            cands.iter().map(|v| (v.rule, v.at.as_str(), region_of(&rendered, &v.at, 0).map(|r| (r.1, r.2)))).collect::<Vec<_>>(),
            texts[fi]
        );
    }
    cx.nontrivial = judged >= 1;
    cx.label_if(judged >= 1, "diagnostic-spans-checked");
    Ok(())
}

/// (3b) Lints about a defective doc comment point into that comment's lines.  C16's comment
/// defects planted on one victim, free layouts; the printer recorded where every comment line is.
fn comment_defects_case(cx: &mut CaseCtx, input: Input, cfg: &GenCfg) -> CaseResult {
    let (lay_bytes, prog_bytes) = split_input(input.bytes());
    let mut u = Unstructured::new(prog_bytes);
    let d = match crate::c16::make_defect(&mut u, cfg) {
        Ok(d) => d,
        Err(_) => {
            cx.label("defect-not-applicable");
            return Ok(());
        }
    };
    let p = &d.program;
    cx.set_key(&(p, lay_bytes));
    if !crate::rules::check_program(p).well_formed() {
        cx.label("skipped-ill-formed");
        return Ok(());
    }
    let (texts, rendered) = render_layout(p, lay_bytes, 1);
    cx.sample_with(|| json!({"files": texts, "defect": d.name, "victim": d.victim}));
    if std::env::var_os("VCHECK_NO_COMPILE").is_some() {
        return Ok(());
    }
    let state = compile_strings(&texts, None);
    let paths: Vec<String> = state.files.iter().map(|f| f.relative_path.clone()).collect();
    let diags = diagnostics_of(state, &Default::default());
    let vfi = file_index(&d.victim);
    let Some(vdoc) = rendered.get(vfi).and_then(|r| r.docs.get(&d.victim)) else {
        cx.label("victim-comment-not-recorded");
        return Ok(());
    };
    let region = (vdoc.first().unwrap().slashes, vdoc.last().unwrap().line_end);
    let mut judged = 0;
    for g in &diags {
        let Some((start, end, file)) = &g.span else { continue };
        let Some(fi) = paths.iter().position(|p| p == file) else {
            fail!(format!("diagnostic-span/unknown-file/{}", g.code), "{} names file {file:?}", g.code);
        };
        let so = SpanObs { start: *start, end: *end, file: file.clone() };
        well_formed(&so, &line_lengths(&texts[fi]), &format!("f{fi}/lint/{}", g.code))?;
        let in_victim = fi == vfi && region.0 <= *start && *end <= region.1;
        match g.code.as_str() {
            "MalformedDocComment" | "IncorrectDocComment" => {
                // other comments of the program are generated well-formed and fitting: a lint of
                // these two kinds is about the victim's comment
                judged += 1;
                cx.label(format!("comment-lint/{}/{}", g.code, d.name));
                check!(
                    in_victim,
                    format!("lint-outside-its-comment/{}/{}", g.code, d.name),
                    "{} ({:?}) for defect {} on {} is reported at {start:?}..{end:?} of file {fi}; the defective comment occupies {:?}..{:?} of file {vfi}\n--- file {fi} ---\n{}",
                    g.code,
                    g.message,
                    d.name,
                    d.victim,
                    region.0,
                    region.1,
                    texts[fi]
                );
            }
            "BrokenDocLink" => {
                // may concern any comment of the file: inside some recorded comment
                let inside_any = rendered[fi].docs.values().any(|v| v.first().unwrap().slashes <= *start && *end <= v.last().unwrap().line_end);
                check!(
                    inside_any,
                    "lint-outside-its-comment/BrokenDocLink",
                    "BrokenDocLink ({:?}) at {start:?}..{end:?} of file {fi} is inside no doc comment\n--- file {fi} ---\n{}",
                    g.message,
                    texts[fi]
                );
            }
            _ => {}
        }
    }
    cx.nontrivial = judged >= 1;
    cx.label_if(judged >= 1, "comment-lint-spans-checked");
    Ok(())
}

/// Collects (kind, span) of everything a visitor is shown.
#[derive(Default)]
pub struct SpanCollector {
    pub spans: Vec<(&'static str, SpanObs)>,
}

impl slicec::visitor::Visitor for SpanCollector {
    fn visit_module(&mut self, x: &slicec::grammar::Module) {
        use slicec::grammar::Symbol;
        self.spans.push(("module", x.span().into()));
    }
    fn visit_struct(&mut self, x: &slicec::grammar::Struct) {
        use slicec::grammar::Symbol;
        self.spans.push(("struct", x.span().into()));
    }
    fn visit_field(&mut self, x: &slicec::grammar::Field) {
        use slicec::grammar::Symbol;
        self.spans.push(("field", x.span().into()));
    }
    fn visit_interface(&mut self, x: &slicec::grammar::Interface) {
        use slicec::grammar::Symbol;
        self.spans.push(("interface", x.span().into()));
    }
    fn visit_operation(&mut self, x: &slicec::grammar::Operation) {
        use slicec::grammar::Symbol;
        self.spans.push(("operation", x.span().into()));
    }
    fn visit_parameter(&mut self, x: &slicec::grammar::Parameter) {
        use slicec::grammar::Symbol;
        self.spans.push(("parameter", x.span().into()));
    }
    fn visit_enum(&mut self, x: &slicec::grammar::Enum) {
        use slicec::grammar::Symbol;
        self.spans.push(("enum", x.span().into()));
    }
    fn visit_enumerator(&mut self, x: &slicec::grammar::Enumerator) {
        use slicec::grammar::Symbol;
        self.spans.push(("enumerator", x.span().into()));
    }
    fn visit_custom_type(&mut self, x: &slicec::grammar::CustomType) {
        use slicec::grammar::Symbol;
        self.spans.push(("custom", x.span().into()));
    }
    fn visit_type_alias(&mut self, x: &slicec::grammar::TypeAlias) {
        use slicec::grammar::Symbol;
        self.spans.push(("alias", x.span().into()));
    }
    fn visit_type_ref(&mut self, x: &slicec::grammar::TypeRef) {
        use slicec::grammar::Symbol;
        self.spans.push(("type", x.span().into()));
    }
}

/// Model-free span check used for regression texts: every span the visitor shows is inside its
/// file, ordered, starts on a non-blank character and ends right after a non-blank character
/// (i.e. not in the white space before or after the element).
pub fn generic_span_check(text: &str) -> CaseResult {
    let state = compile_strings(&[text.to_owned()], None);
    let lines = line_lengths(text);
    let rows: Vec<Vec<char>> = text.split('\n').map(|l| l.chars().collect()).collect();
    let mut col = SpanCollector::default();
    for f in &state.files {
        f.visit_with(&mut col);
    }
    for (kind, s) in &col.spans {
        well_formed(s, &lines, kind)?;
        let at = |p: Pos| -> Option<char> { rows.get(p.0 - 1).and_then(|r| r.get(p.1 - 1)).copied() };
        let first = at(s.start);
        check!(
            first.map(|c| !c.is_whitespace()).unwrap_or(false),
            format!("direct/span-starts-on-blank/{kind}"),
            "{kind}: span {:?}..{:?} starts on {:?}",
            s.start,
            s.end,
            first
        );
        let last = if s.end.1 >= 2 { at((s.end.0, s.end.1 - 1)) } else { None };
        check!(
            last.map(|c| !c.is_whitespace()).unwrap_or(false),
            format!("direct/span-ends-after-blank/{kind}"),
            "{kind}: span {:?}..{:?} ends after {:?}",
            s.start,
            s.end,
            last
        );
    }
    Ok(())
}

impl Check for C09 {
    fn id(&self) -> &'static str {
        "C09"
    }
    fn rule(&self) -> String {
        "proptest choice sequences -> well-formed program x token-level layouts (tabs, CRLF, multi-byte characters in comments and string arguments, blank lines, comments between any two tokens; in every other layout preprocessor lines - removed `#if` blocks, `#define`, selected `#if` / `#else` regions, indented independently - in front of definitions); the printer records the character position of every token and the token range of every element, which are the expected spans; oracle: every span of every element / identifier / tag / value / attribute / type expression / doc-comment part reachable through the public API is inside its file, start <= end, tight as the statement says. Non-trivial = the layout has a tab, CRLF or non-ASCII character; distinct by hash of the abstract program. Family `diagnostics`: programs with 1..3 injected rule violations (C04's catalogue) in free layouts; every diagnostic/note span is inside its file and ordered, and every error's span lies inside the text (prelude included) of an element the reference rule checker names as violating a rule with that code (non-trivial = at least one such error judged). Family `comment-defects`: C16's defective doc comments planted on one victim in free layouts; every MalformedDocComment / IncorrectDocComment lint must lie inside the lines of the victim's comment and every BrokenDocLink inside some doc comment (non-trivial = at least one such lint judged). Family `snippets`: every element span, spans joined from two elements and zero-width positions attached to synthetic diagnostics and notes, written by the real emitter in human format and re-parsed against a reference that computes line numbers, tab-expanded source lines and the underline cell by cell (non-trivial = a multi-line span with a tab or non-ASCII character on an inner line, or a single-line span preceded by one)".into()
    }
    fn assumptions(&self) -> Vec<String> {
        vec![
            "a '\\r' before the line break counts as part of a doc comment's line".into(),
            "a part of a doc comment (overview, a tag with its identifier / message / links) lies on the rows of its own section, not only somewhere in the comment".into(),
            "the spelling of an escaped identifier includes its backslash".into(),
            "a type reference's span may or may not include its leading attributes".into(),
            "an element's span may end at the end of any of its tokens at or after its name".into(),
        ]
    }
    fn essential(&self, _tier: Tier) -> Vec<&'static str> {
        vec!["spans-checked", "tab", "crlf", "non-ascii-before", "prelude-mixed", "op-no-return", "op-single-return", "op-tuple-return", "unchecked", "compact", "idempotent", "tagged", "enumerator-explicit", "type-attribute", "preprocessor-block-before-definition", "diagnostic-spans-checked", "comment-lint-spans-checked", "snippets-checked", "multi-line-span/non-ascii-on-inner-line", "multi-line-span/tab-on-inner-line", "single-line-span/non-ascii-before", "single-line-span/tab-before", "zero-width-span"]
    }
    fn fuzz_families(&self, _tier: Tier) -> Vec<(&'static str, u64)> {
        // libFuzzer runs per job (16 jobs), sized from the measured speed of the instrumented build
        vec![("programs", 4000), ("diagnostics", 10000), ("comment-defects", 10000), ("snippets", 3000)]
    }
    fn families(&self, tier: Tier) -> Vec<Family<'_>> {
        let layouts = tier.pick(2, 4);
        let cfg = GenCfg::default();
        let cfg2 = GenCfg::default();
        let cfg3 = GenCfg::default();
        let cfg4 = GenCfg { max_files: 2, max_defs: 6, doc_chance: 120, ..GenCfg::default() };
        vec![
            Family::bytes("programs", 600, tier.pick(4_000, 60_000), move |cx, i| case(cx, i, layouts, &cfg)),
            Family::bytes("diagnostics", 500, tier.pick(3_000, 50_000), move |cx, i| diagnostics_case(cx, i, &cfg3)),
            Family::bytes("comment-defects", 500, tier.pick(2_000, 30_000), move |cx, i| comment_defects_case(cx, i, &cfg4)),
            Family::bytes("snippets", 600, tier.pick(1_500, 25_000), move |cx, i| snippets_case(cx, i, &cfg2)),
            // regression inputs: the bytes are a source text; model-free span check
            Family::replay_only("direct", |cx, i| {
                let text = String::from_utf8_lossy(i.bytes()).into_owned();
                cx.nontrivial = true;
                cx.sample_with(|| json!({"text": text}));
                generic_span_check(&text)
            }),
        ]
    }
}
