//! Doc comment model: what is written (lines after `///`), and — by an independent reference
//! written from the C16 statement — what the parsed comment must say.

use crate::gen::{chance, pick};
use arbitrary::Unstructured;
use serde::Serialize;

#[derive(Clone, Debug, PartialEq, Eq, Hash, Serialize)]
pub enum Piece {
    Text(String),
    /// `{@link target}` with the white space written inside the braces
    Link { target: String, pad_open: String, pad_mid: String, pad_close: String },
}

#[derive(Clone, Debug, PartialEq, Eq, Hash, Serialize, Default)]
pub struct Line {
    /// leading white space (any kinds)
    pub indent: String,
    pub pieces: Vec<Piece>,
}

#[derive(Clone, Debug, PartialEq, Eq, Hash, Serialize)]
pub enum Tag {
    Param { name: String, colon: bool, inline: Line, cont: Vec<Line> },
    Returns { name: Option<String>, colon: bool, inline: Line, cont: Vec<Line> },
    See { target: String },
}

#[derive(Clone, Debug, PartialEq, Eq, Hash, Serialize, Default)]
pub struct DocModel {
    pub overview: Vec<Line>,
    pub tags: Vec<Tag>,
    /// white space between `///` and `@` on tag lines
    pub tag_indent: String,
    /// white space between a tag's identifier and its `:`
    pub colon_gap: String,
}

impl Line {
    pub fn text(indent: &str, t: &str) -> Line {
        Line {
            indent: indent.to_owned(),
            pieces: if t.is_empty() { vec![] } else { vec![Piece::Text(t.to_owned())] },
        }
    }
    pub fn is_empty(&self) -> bool {
        self.indent.is_empty() && self.pieces.is_empty()
    }
    pub fn is_blank(&self) -> bool {
        self.pieces.is_empty() || self.pieces.iter().all(|p| matches!(p, Piece::Text(t) if t.chars().all(char::is_whitespace)))
    }
    pub fn written(&self) -> String {
        let mut s = self.indent.clone();
        for p in &self.pieces {
            match p {
                Piece::Text(t) => s.push_str(t),
                Piece::Link {
                    target,
                    pad_open,
                    pad_mid,
                    pad_close,
                } => s.push_str(&format!("{{{pad_open}@link{pad_mid}{target}{pad_close}}}")),
            }
        }
        s
    }
    pub fn has_link(&self) -> bool {
        self.pieces.iter().any(|p| matches!(p, Piece::Link { .. }))
    }
}

impl DocModel {
    /// The lines as written after `///`.
    pub fn lines(&self) -> Vec<String> {
        let mut out: Vec<String> = self.overview.iter().map(|l| l.written()).collect();
        for t in &self.tags {
            match t {
                Tag::Param { name, colon, inline, cont } => {
                    let mut s = format!("{}@param {name}", self.tag_indent);
                    if *colon {
                        s.push_str(&self.colon_gap);
                        s.push(':');
                        s.push_str(&inline.written());
                    }
                    out.push(s);
                    out.extend(cont.iter().map(|l| l.written()));
                }
                Tag::Returns { name, colon, inline, cont } => {
                    let mut s = format!("{}@returns", self.tag_indent);
                    if let Some(n) = name {
                        s.push(' ');
                        s.push_str(n);
                    }
                    if *colon {
                        if name.is_some() {
                            s.push_str(&self.colon_gap);
                        }
                        s.push(':');
                        s.push_str(&inline.written());
                    }
                    out.push(s);
                    out.extend(cont.iter().map(|l| l.written()));
                }
                Tag::See { target } => out.push(format!("{}@see {target}", self.tag_indent)),
            }
        }
        out
    }
    pub fn is_empty(&self) -> bool {
        self.overview.is_empty() && self.tags.is_empty()
    }
}

// ------------------------------------------------------------------------------------------
// Reference: what the parsed comment must contain
// ------------------------------------------------------------------------------------------

#[derive(Clone, Debug, PartialEq, Eq, Serialize)]
pub enum Part {
    Text(String),
    /// the written target
    Link(String),
}

#[derive(Clone, Debug, PartialEq, Eq, Serialize, Default)]
pub struct Expected {
    pub overview: Option<Vec<Part>>,
    pub params: Vec<(String, Vec<Part>)>,
    pub returns: Vec<(Option<String>, Vec<Part>)>,
    pub see: Vec<String>,
    /// the expectation is exact (uniform indentation, no white-space-only line); otherwise only the
    /// lenient relation of DESIGN section 3 is asserted
    pub exact: bool,
}

/// Merges adjacent text parts (how a message is cut into text tokens is not part of the statement).
pub fn flatten(parts: &[Part]) -> Vec<Part> {
    let mut out: Vec<Part> = Vec::new();
    for p in parts {
        match (out.last_mut(), p) {
            (Some(Part::Text(a)), Part::Text(b)) => a.push_str(b),
            _ => out.push(p.clone()),
        }
    }
    out.retain(|p| !matches!(p, Part::Text(t) if t.is_empty()));
    out
}

fn line_parts(l: &Line, strip_chars: usize) -> Vec<Part> {
    // the line as parts, with `strip_chars` leading characters removed from the written line
    let mut parts: Vec<Part> = Vec::new();
    if !l.indent.is_empty() {
        parts.push(Part::Text(l.indent.clone()));
    }
    for p in &l.pieces {
        match p {
            Piece::Text(t) => parts.push(Part::Text(t.clone())),
            Piece::Link { target, .. } => parts.push(Part::Link(target.clone())),
        }
    }
    let mut parts = flatten(&parts);
    let mut left = strip_chars;
    if left > 0 {
        if let Some(Part::Text(t)) = parts.first_mut() {
            let cut: usize = t.char_indices().nth(left).map(|x| x.0).unwrap_or(t.len());
            *t = t[cut..].to_owned();
            left = 0;
        }
    }
    let _ = left;
    flatten(&parts)
}

fn leading_ws(l: &Line) -> usize {
    // white-space characters at the start of the written line (a link ends the run)
    let mut n = l.indent.chars().count();
    if l.indent.chars().all(char::is_whitespace) {
        for p in &l.pieces {
            match p {
                Piece::Text(t) => {
                    let k = t.chars().take_while(|c| c.is_whitespace()).count();
                    n += k;
                    if k < t.chars().count() {
                        break;
                    }
                }
                Piece::Link { .. } => break,
            }
        }
    }
    n
}

/// Common indentation removed, one line break per line.  Returns (parts, exact).
pub fn block(lines: &[Line]) -> (Vec<Part>, bool) {
    let mut exact = true;
    // white-space-only lines and mixed kinds of indentation are the lenient cases
    let non_empty: Vec<&Line> = lines.iter().filter(|l| !l.is_empty()).collect();
    if non_empty.iter().any(|l| l.is_blank()) {
        exact = false;
    }
    let kinds: std::collections::BTreeSet<char> = non_empty.iter().flat_map(|l| l.indent.chars()).collect();
    if kinds.len() > 1 {
        exact = false;
    }
    let common = non_empty.iter().filter(|l| !l.is_blank()).map(|l| leading_ws(l)).min().unwrap_or(0);
    let mut out = Vec::new();
    for l in lines {
        if !l.is_empty() {
            out.extend(line_parts(l, common));
        }
        out.push(Part::Text("\n".into()));
    }
    (flatten(&out), exact)
}

fn section(colon: bool, inline: &Line, cont: &[Line]) -> (Vec<Part>, bool) {
    let mut out = Vec::new();
    let mut exact = true;
    if colon && !inline.is_empty() {
        // the inline part is trimmed at the front
        let mut parts = line_parts(inline, 0);
        if let Some(Part::Text(t)) = parts.first_mut() {
            *t = t.trim_start().to_owned();
        }
        let parts = flatten(&parts);
        if !parts.is_empty() {
            out.extend(parts);
            out.push(Part::Text("\n".into()));
        } else {
            // `@param x:   ` (white space only after the colon): lenient
            exact = false;
        }
    }
    if !cont.is_empty() {
        let (b, e) = block(cont);
        out.extend(b);
        exact &= e;
    }
    (flatten(&out), exact)
}

pub fn expected(d: &DocModel) -> Expected {
    let mut e = Expected {
        exact: true,
        ..Default::default()
    };
    if !d.overview.is_empty() {
        let (b, ex) = block(&d.overview);
        e.overview = Some(b);
        e.exact &= ex;
    }
    for t in &d.tags {
        match t {
            Tag::Param { name, colon, inline, cont } => {
                let (m, ex) = section(*colon, inline, cont);
                e.params.push((name.clone(), m));
                e.exact &= ex;
            }
            Tag::Returns { name, colon, inline, cont } => {
                let (m, ex) = section(*colon, inline, cont);
                e.returns.push((name.clone(), m));
                e.exact &= ex;
            }
            Tag::See { target } => e.see.push(target.clone()),
        }
    }
    e
}

// ------------------------------------------------------------------------------------------
// Generator
// ------------------------------------------------------------------------------------------

pub struct DocCfg {
    /// identifiers that may be used as link / see targets (written spellings)
    pub targets: Vec<String>,
    /// parameter names / return member names of the documented operation (empty = not an operation)
    pub params: Vec<String>,
    pub returns: Vec<String>,
    pub returns_single: bool,
    /// allow non-ASCII and mixed-kind indentation, white-space-only lines
    pub exotic: bool,
}

const WORDS: [&str; 12] = [
    "A short description.",
    "second line",
    "x",
    "with unicode é中",
    "brace { inside",
    "at sign a@b",
    "colon: here",
    "ends with space ",
    "tab\tinside",
    "{ not a tag }",
    "1 + 1 = 2",
    "}",
];

const INDENTS: [&str; 5] = [" ", "  ", "    ", "\t", ""];
const EXOTIC_INDENTS: [&str; 4] = ["\u{a0}", "\u{3000}", "\u{3000}\u{3000}", " \t"];

fn gen_piece_text(u: &mut Unstructured) -> Piece {
    Piece::Text(WORDS[pick(u, WORDS.len())].to_owned())
}

fn gen_link(u: &mut Unstructured, cfg: &DocCfg) -> Option<Piece> {
    if cfg.targets.is_empty() {
        return None;
    }
    let target = cfg.targets[pick(u, cfg.targets.len())].clone();
    let pads = ["", " ", "  "];
    Some(Piece::Link {
        target,
        pad_open: pads[pick(u, 3)].to_owned(),
        pad_mid: [" ", "  ", "\t"][pick(u, 3)].to_owned(),
        pad_close: pads[pick(u, 3)].to_owned(),
    })
}

fn gen_line(u: &mut Unstructured, cfg: &DocCfg, indent: &str) -> Line {
    let mut pieces = Vec::new();
    match pick(u, 8) {
        0..=3 => pieces.push(gen_piece_text(u)),
        4 => {
            // link at line start (right after the indentation)
            if let Some(l) = gen_link(u, cfg) {
                pieces.push(l);
                pieces.push(Piece::Text(" follows".into()));
            } else {
                pieces.push(gen_piece_text(u));
            }
        }
        5 => {
            pieces.push(Piece::Text("see ".into()));
            if let Some(l) = gen_link(u, cfg) {
                pieces.push(l);
                pieces.push(Piece::Text(" in the middle".into()));
            }
        }
        6 => {
            pieces.push(Piece::Text("ends with ".into()));
            if let Some(l) = gen_link(u, cfg) {
                pieces.push(l);
            }
        }
        _ => {
            pieces.push(gen_piece_text(u));
            pieces.push(Piece::Text(" ".into()));
            pieces.push(gen_piece_text(u));
        }
    }
    // a text piece must not make the line look like a tag line
    Line {
        indent: indent.to_owned(),
        pieces,
    }
}

fn gen_block(u: &mut Unstructured, cfg: &DocCfg, max: usize) -> Vec<Line> {
    let n = pick(u, max + 1);
    let uniform = !cfg.exotic || chance(u, 170);
    let base = if cfg.exotic && chance(u, 60) { EXOTIC_INDENTS[pick(u, EXOTIC_INDENTS.len())] } else { INDENTS[pick(u, INDENTS.len())] };
    let mut out = Vec::new();
    for _ in 0..n {
        match pick(u, 10) {
            0 => out.push(Line::default()), // `///` alone
            1 if cfg.exotic => out.push(Line {
                indent: "  ".into(),
                pieces: vec![],
            }), // white-space only
            _ => {
                let indent = if uniform {
                    // same kind of white space, possibly deeper
                    let extra = pick(u, 3);
                    let unit: String = base.chars().next().map(|c| c.to_string()).unwrap_or_default();
                    format!("{base}{}", unit.repeat(extra))
                } else {
                    let all: Vec<&str> = INDENTS.iter().chain(EXOTIC_INDENTS.iter()).copied().collect();
                    all[pick(u, all.len())].to_owned()
                };
                out.push(gen_line(u, cfg, &indent));
            }
        }
    }
    out
}

/// A well-formed doc comment.
pub fn gen_doc(u: &mut Unstructured, cfg: &DocCfg) -> DocModel {
    let mut d = DocModel {
        overview: gen_block(u, cfg, 4),
        tags: Vec::new(),
        // (exotic: tag lines indented with white space that is not ASCII)
        tag_indent: if cfg.exotic && chance(u, 50) {
            ["\u{a0}", "\u{3000}", " \u{2003}", "\u{a0}\t"][pick(u, 4)].to_owned()
        } else {
            [" ", "", "  ", "\t"][pick(u, 4)].to_owned()
        },
        colon_gap: String::new(),
    };
    // an overview line must not start with '@' after its indentation
    for l in &mut d.overview {
        if let Some(Piece::Text(t)) = l.pieces.first_mut() {
            if t.trim_start().starts_with('@') {
                t.insert(0, 'x');
            }
        }
    }
    let ntags = pick(u, 4);
    for _ in 0..ntags {
        let sel = pick(u, 4);
        let inline_indent = [" ", "", "   "][pick(u, 3)];
        let inline = if chance(u, 180) { gen_line(u, cfg, inline_indent) } else { Line::default() };
        let mut cont = if chance(u, 110) { gen_block(u, cfg, 3) } else { vec![] };
        for l in &mut cont {
            if let Some(Piece::Text(t)) = l.pieces.first_mut() {
                if t.trim_start().starts_with('@') {
                    t.insert(0, 'x');
                }
            }
        }
        let colon = !inline.is_empty() || chance(u, 60);
        match sel {
            0 | 1 if !cfg.params.is_empty() => {
                let name = cfg.params[pick(u, cfg.params.len())].clone();
                d.tags.push(Tag::Param { name, colon, inline, cont });
            }
            2 if cfg.returns_single || !cfg.returns.is_empty() => {
                let name = if cfg.returns_single { None } else { Some(cfg.returns[pick(u, cfg.returns.len())].clone()) };
                d.tags.push(Tag::Returns { name, colon, inline, cont });
            }
            _ => {
                if !cfg.targets.is_empty() {
                    d.tags.push(Tag::See {
                        target: cfg.targets[pick(u, cfg.targets.len())].clone(),
                    });
                }
            }
        }
    }
    // (drawn last: white space before the colon is accepted by the comment grammar)
    d.colon_gap = ["", "", " ", "\t"][pick(u, 4)].to_owned();
    d
}
