#![allow(dead_code)]
//! vcheck — property checks for icerpc/slicec (see /verif/DESIGN.md).
//!
//!   vcheck run <ID> quick|thorough         supervisor (what ./check calls)
//!   vcheck replay <ID> <file>              strict re-run of a saved case
//!   vcheck worker ... / vcheck one ...     internal

mod c01;
mod c02;
mod c03;
mod c04;
mod c05;
mod c06;
mod c07;
mod c08;
mod c09;
mod c10;
mod c11;
mod c12;
mod c13;
mod c14;
mod c15;
mod c16;
mod c17;
mod c18;
mod c19;
mod c20;
mod compile;
mod doc;
mod engine;
mod gen;
mod guard;
mod inject;
mod model;
mod observe;
mod refcheck;
mod request;
mod render;
mod rules;
mod proc;
mod wire;

use engine::{Check, Tier};

fn registry() -> Vec<&'static dyn Check> {
    vec![&c01::C01, &c02::C02, &c03::C03, &c04::C04, &c05::C05, &c06::C06, &c07::C07, &c08::C08, &c09::C09, &c10::C10, &c11::C11, &c12::C12, &c13::C13, &c14::C14, &c15::C15, &c16::C16, &c17::C17, &c18::C18, &c19::C19, &c20::C20]
}

fn find(id: &str) -> &'static dyn Check {
    registry().into_iter().find(|c| c.id() == id).unwrap_or_else(|| {
        eprintln!("vcheck: unknown property {id}");
        std::process::exit(2)
    })
}

fn main() {
    let args: Vec<String> = std::env::args().collect();
    let code = match args.get(1).map(|s| s.as_str()) {
        Some("run") if args.len() >= 4 => {
            let check = find(&args[2]);
            let tier = Tier::parse(&args[3]).unwrap_or_else(|| {
                eprintln!("vcheck: tier must be quick or thorough");
                std::process::exit(2)
            });
            engine::supervise(check, tier)
        }
        Some("worker") if args.len() >= 8 => {
            let check = find(&args[2]);
            let tier = Tier::parse(&args[3]).expect("tier");
            let shard: usize = args[4].parse().expect("shard");
            let nshards: usize = args[5].parse().expect("nshards");
            let seed: u64 = args[6].parse().expect("seed");
            engine::worker_main(check, tier, shard, nshards, seed, args[7].clone().into())
        }
        Some("one") if args.len() >= 6 => {
            let check = find(&args[2]);
            let strict = args.get(6).map(|s| s == "strict").unwrap_or(true);
            engine::one_main(check, args[3].clone(), args[4].clone(), args[5].clone(), strict)
        }
        Some("render") if args.len() >= 6 => engine::render_main(find(&args[2]), args[3].clone(), args[4].clone(), args[5].clone()),
        Some("replay") if args.len() >= 4 => engine::replay_main(find(&args[2]), &args[3]),
        Some("needs-binary") if args.len() >= 3 => {
            if find(&args[2]).needs_binary() {
                0
            } else {
                1
            }
        }
        Some("list") => {
            for c in registry() {
                println!("{}", c.id());
            }
            0
        }
        _ => {
            eprintln!("usage: vcheck run <ID> quick|thorough | replay <ID> <file> | list");
            2
        }
    };
    std::process::exit(code);
}
