#![allow(dead_code)]
//! vcheck — property checks for icerpc/slicec (see /verif/DESIGN.md).
//!
//!   vcheck run <ID> quick|thorough         supervisor (what ./check calls)
//!   vcheck replay <ID> <file>              strict re-run of a saved case
//!   vcheck worker ... / vcheck one ...     internal


use vcheck::engine::{self, Tier};
use vcheck::{find, registry};

fn main() {
    let args: Vec<String> = std::env::args().collect();
    let code = match args.get(1).map(|s| s.as_str()) {
        Some("run") if args.len() >= 4 => {
            let check = find(&args[2]);
            let tier = Tier::parse(&args[3]).unwrap_or_else(|| {
                eprintln!("vcheck: tier must be quick or thorough");
                std::process::exit(2)
            });
            engine::supervise(check, tier)
        }
        Some("worker") if args.len() >= 8 => {
            let check = find(&args[2]);
            let tier = Tier::parse(&args[3]).expect("tier");
            let shard: usize = args[4].parse().expect("shard");
            let nshards: usize = args[5].parse().expect("nshards");
            let seed: u64 = args[6].parse().expect("seed");
            engine::worker_main(check, tier, shard, nshards, seed, args[7].clone().into())
        }
        Some("one") if args.len() >= 6 => {
            let check = find(&args[2]);
            let strict = args.get(6).map(|s| s == "strict").unwrap_or(true);
            engine::one_main(check, args[3].clone(), args[4].clone(), args[5].clone(), strict)
        }
        Some("render") if args.len() >= 6 => engine::render_main(find(&args[2]), args[3].clone(), args[4].clone(), args[5].clone()),
        Some("replay") if args.len() >= 4 => engine::replay_main(find(&args[2]), &args[3]),
        Some("needs-binary") if args.len() >= 3 => {
            if find(&args[2]).needs_binary() {
                0
            } else {
                1
            }
        }
        Some("fuzz-families") if args.len() >= 3 => {
            let f = find(&args[2]).fuzz_families(Tier::Thorough);
            for (n, r) in &f {
                println!("{n} {r}");
            }
            if f.is_empty() {
                1
            } else {
                0
            }
        }
        Some("list") => {
            for c in registry() {
                println!("{}", c.id());
            }
            0
        }
        _ => {
            eprintln!("usage: vcheck run <ID> quick|thorough | replay <ID> <file> | list");
            2
        }
    };
    std::process::exit(code);
}
