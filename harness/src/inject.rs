//! The violation catalogue: model transformations that break one language rule each, at
//! boundary values.  The label an injector returns is only a coverage counter — what is violated
//! is always recomputed from the mutated model by the reference checker (`rules`).

use crate::gen::{chance, pick};
use crate::model::*;
use arbitrary::Unstructured;

pub const CATALOGUE: [&str; 49] = [
    "tag-negative",
    "tag-2^31",
    "tag-huge",
    "tag-non-optional",
    "tag-duplicate",
    "compact-struct-tagged",
    "compact-enum-tagged",
    "compact-struct-empty",
    "enumerator-duplicate-explicit",
    "enumerator-duplicate-implicit",
    "enumerator-below-min",
    "enumerator-above-max",
    "enumerator-negative-no-underlying",
    "enumerator-2^31-no-underlying",
    "underlying-non-integral",
    "underlying-optional",
    "underlying-not-primitive",
    "underlying-with-fields",
    "enum-checked-empty",
    "enum-compact-unchecked",
    "enum-compact-underlying",
    "key-float",
    "key-optional",
    "key-collection",
    "key-non-compact-struct",
    "key-compact-struct-bad-field",
    "key-enum-without-underlying",
    "stream-not-last",
    "stream-twice",
    "return-tuple-one",
    "return-tuple-zero",
    "inherited-operation-redeclared",
    "alias-of-optional",
    "module-missing",
    "attribute-unknown",
    "attribute-wrong-target",
    "attribute-bad-argument",
    "attribute-argument-count",
    "attribute-repeated",
    "name-duplicate-member",
    "name-duplicate-definition",
    "name-duplicate-enumerator-field",
    "type-missing",
    "type-wrong-kind",
    "alias-loop",
    "containment-cycle",
    "doc-on-parameter",
    "implicit-enumerator-overflow",
    "name-definition-vs-module",
];

fn structs_mut(p: &mut Program) -> Vec<&mut StructM> {
    p.files
        .iter_mut()
        .flat_map(|f| f.defs.iter_mut())
        .filter_map(|d| if let DefM::Struct(s) = d { Some(s) } else { None })
        .collect()
}

fn enums_mut(p: &mut Program) -> Vec<&mut EnumM> {
    p.files
        .iter_mut()
        .flat_map(|f| f.defs.iter_mut())
        .filter_map(|d| if let DefM::Enum(s) = d { Some(s) } else { None })
        .collect()
}

fn ops_mut(p: &mut Program) -> Vec<&mut OpM> {
    p.files
        .iter_mut()
        .flat_map(|f| f.defs.iter_mut())
        .filter_map(|d| if let DefM::Interface(s) = d { Some(s) } else { None })
        .flat_map(|i| i.ops.iter_mut())
        .collect()
}

fn first_module_file(p: &mut Program) -> Option<&mut FileM> {
    p.files.iter_mut().find(|f| f.module.is_some())
}

fn fresh_struct(name: &str, fields: Vec<FieldM>, compact: bool) -> DefM {
    DefM::Struct(StructM {
        pre: Prelude::default(),
        compact,
        name: name.to_owned(),
        fields,
    })
}

fn field(name: &str, ty: TypeM) -> FieldM {
    FieldM {
        pre: Prelude::default(),
        tag: None,
        name: name.to_owned(),
        ty,
    }
}

fn param(name: &str, ty: TypeM) -> ParamM {
    ParamM {
        pre: Prelude::default(),
        tag: None,
        name: name.to_owned(),
        stream: false,
        ty,
    }
}

fn unique_def_name(p: &Program, base: &str) -> String {
    let mut n = 0;
    loop {
        let cand = format!("{base}{n}");
        if !p.files.iter().any(|f| f.defs.iter().any(|d| d.name() == cand)) {
            return cand;
        }
        n += 1;
    }
}

/// Adds a definition to the first file that has a module; returns false if there is none.
fn add_def(p: &mut Program, d: DefM) -> bool {
    match first_module_file(p) {
        Some(f) => {
            f.defs.push(d);
            true
        }
        None => false,
    }
}

fn tagged_host(p: &mut Program, u: &mut Unstructured, tag: i128, optional: bool) -> bool {
    // put the tag on an existing untagged field of a non-compact struct if there is one, else add a struct
    let mut ss: Vec<&mut StructM> = structs_mut(p).into_iter().filter(|s| !s.compact && s.fields.iter().any(|f| f.tag.is_none())).collect();
    if !ss.is_empty() && chance(u, 160) {
        let i = pick(u, ss.len());
        let s = &mut ss[i];
        let cands: Vec<usize> = (0..s.fields.len()).filter(|k| s.fields[*k].tag.is_none()).collect();
        let k = cands[pick(u, cands.len())];
        if s.fields.iter().any(|f| f.tag == Some(tag)) {
            return false;
        }
        s.fields[k].tag = Some(tag);
        s.fields[k].ty.optional = optional;
        return true;
    }
    let name = unique_def_name(p, "Inj");
    let mut f = field("v", TypeM::prim("int32"));
    f.tag = Some(tag);
    f.ty.optional = optional;
    add_def(p, fresh_struct(&name, vec![f], false))
}

/// Applies catalogue entry `which`; returns true if it could be applied to this program.
pub fn inject(p: &mut Program, which: usize, u: &mut Unstructured) -> bool {
    let name = CATALOGUE[which % CATALOGUE.len()];
    match name {
        "tag-negative" => tagged_host(p, u, -1, true),
        "tag-2^31" => tagged_host(p, u, 1i128 << 31, true),
        "tag-huge" => tagged_host(p, u, (1i128 << 64) + 1, true),
        "tag-non-optional" => tagged_host(p, u, 5, false),
        "tag-duplicate" => {
            let n = unique_def_name(p, "Inj");
            let mut a = field("a", TypeM::prim("int32").opt());
            let mut b = field("b", TypeM::prim("string").opt());
            let mut c = field("c", TypeM::prim("bool").opt());
            let t = [0i128, 7, 2147483647][pick(u, 3)];
            a.tag = Some(t);
            c.tag = Some(t);
            b.tag = Some(t + if t == 0 { 1 } else { -1 });
            // variant: in a parameter list or return tuple
            match pick(u, 3) {
                0 => add_def(p, fresh_struct(&n, vec![a, b, c], false)),
                k => {
                    let to_param = |f: FieldM| ParamM {
                        pre: Prelude::default(),
                        tag: f.tag,
                        name: f.name,
                        stream: false,
                        ty: f.ty,
                    };
                    let ps = vec![to_param(a), to_param(b), to_param(c)];
                    let op = if k == 1 {
                        OpM {
                            pre: Prelude::default(),
                            idempotent: false,
                            name: "op".into(),
                            params: ps,
                            ret: RetM::None,
                        }
                    } else {
                        OpM {
                            pre: Prelude::default(),
                            idempotent: false,
                            name: "op".into(),
                            params: vec![],
                            ret: RetM::Tuple(ps),
                        }
                    };
                    add_def(
                        p,
                        DefM::Interface(InterfaceM {
                            pre: Prelude::default(),
                            name: n,
                            bases: vec![],
                            ops: vec![op],
                        }),
                    )
                }
            }
        }
        "compact-struct-tagged" => {
            let n = unique_def_name(p, "Inj");
            let mut a = field("a", TypeM::prim("int32").opt());
            a.tag = Some(1);
            add_def(p, fresh_struct(&n, vec![field("x", TypeM::prim("bool")), a], true))
        }
        "compact-enum-tagged" => {
            let n = unique_def_name(p, "Inj");
            let mut a = field("a", TypeM::prim("int32").opt());
            a.tag = Some(1);
            add_def(
                p,
                DefM::Enum(EnumM {
                    pre: Prelude::default(),
                    compact: true,
                    unchecked: false,
                    name: n,
                    underlying: None,
                    enumerators: vec![EnumeratorM {
                        pre: Prelude::default(),
                        name: "A".into(),
                        fields: Some(vec![a]),
                        value: None,
                        effective: 0,
                    }],
                }),
            )
        }
        "compact-struct-empty" => {
            let mut ss: Vec<&mut StructM> = structs_mut(p).into_iter().filter(|s| !s.compact && s.fields.is_empty()).collect();
            if !ss.is_empty() {
                let i = pick(u, ss.len());
                ss[i].compact = true;
                true
            } else {
                let n = unique_def_name(p, "Inj");
                add_def(p, fresh_struct(&n, vec![], true))
            }
        }
        "enumerator-duplicate-explicit" | "enumerator-duplicate-implicit" | "enumerator-below-min"
        | "enumerator-above-max" | "implicit-enumerator-overflow" => {
            const PRIMS: [&str; 12] = [
                "int8", "uint8", "int16", "uint16", "int32", "uint32", "varint32", "varuint32", "int64", "uint64",
                "varint62", "varuint62",
            ];
            let prim = PRIMS[pick(u, PRIMS.len())];
            let (lo, hi) = prim_bounds(prim).unwrap();
            let e = |name: &str, v: Option<i128>| EnumeratorM {
                pre: Prelude::default(),
                name: name.to_owned(),
                fields: None,
                value: v,
                effective: 0,
            };
            let enumerators = match name {
                "enumerator-duplicate-explicit" => vec![e("A", Some(hi)), e("B", Some(lo)), e("C", Some(hi))],
                // out of order explicit values followed by an implicit one that lands on an earlier value
                "enumerator-duplicate-implicit" => vec![e("A", Some(lo + 1)), e("B", Some(lo)), e("C", None)],
                "enumerator-below-min" => vec![e("A", Some(lo)), e("B", Some(lo - 1))],
                "enumerator-above-max" => vec![e("A", Some(hi)), e("B", Some(hi + 1))],
                _ => vec![e("A", Some(hi)), e("B", None)],
            };
            let n = unique_def_name(p, "Inj");
            let unchecked = chance(u, 100);
            add_def(
                p,
                DefM::Enum(EnumM {
                    pre: Prelude::default(),
                    compact: false,
                    unchecked,
                    name: n,
                    underlying: Some(TypeM::prim(prim)),
                    enumerators,
                }),
            )
        }
        "enumerator-negative-no-underlying" | "enumerator-2^31-no-underlying" => {
            let v = if name == "enumerator-negative-no-underlying" { -1 } else { 1i128 << 31 };
            let n = unique_def_name(p, "Inj");
            add_def(
                p,
                DefM::Enum(EnumM {
                    pre: Prelude::default(),
                    compact: false,
                    unchecked: false,
                    name: n,
                    underlying: None,
                    enumerators: vec![EnumeratorM {
                        pre: Prelude::default(),
                        name: "A".into(),
                        fields: None,
                        value: Some(v),
                        effective: v,
                    }],
                }),
            )
        }
        "underlying-non-integral" | "underlying-optional" | "underlying-not-primitive" | "underlying-with-fields"
        | "enum-checked-empty" | "enum-compact-unchecked" | "enum-compact-underlying" => {
            let n = unique_def_name(p, "Inj");
            let mut e = EnumM {
                pre: Prelude::default(),
                compact: false,
                unchecked: false,
                name: n,
                underlying: Some(TypeM::prim("uint8")),
                enumerators: vec![EnumeratorM {
                    pre: Prelude::default(),
                    name: "A".into(),
                    fields: None,
                    value: None,
                    effective: 0,
                }],
            };
            match name {
                "underlying-non-integral" => e.underlying = Some(TypeM::prim(["bool", "string", "float32", "float64"][pick(u, 4)])),
                "underlying-optional" => e.underlying = Some(TypeM::prim("int16").opt()),
                "underlying-not-primitive" => {
                    // a struct / custom type as underlying type
                    let sn = unique_def_name(p, "InjU");
                    if !add_def(p, DefM::Custom(CustomM { pre: Prelude::default(), name: sn.clone() })) {
                        return false;
                    }
                    e.underlying = Some(TypeM::named(&sn));
                }
                "underlying-with-fields" => {
                    e.enumerators[0].fields = Some(vec![field("x", TypeM::prim("int32"))]);
                }
                "enum-checked-empty" => {
                    e.enumerators.clear();
                    if chance(u, 128) {
                        e.underlying = None;
                    }
                }
                "enum-compact-unchecked" => {
                    e.underlying = None;
                    e.compact = true;
                    e.unchecked = true;
                }
                _ => e.compact = true,
            }
            add_def(p, DefM::Enum(e))
        }
        "key-float" | "key-optional" | "key-collection" | "key-non-compact-struct" | "key-compact-struct-bad-field"
        | "key-enum-without-underlying" => {
            let n = unique_def_name(p, "Inj");
            let key = match name {
                "key-float" => TypeM::prim(["float32", "float64"][pick(u, 2)]),
                "key-optional" => TypeM::prim("int32").opt(),
                "key-collection" => match pick(u, 3) {
                    0 => TypeM::seq(TypeM::prim("int32")),
                    1 => TypeM::dict(TypeM::prim("int32"), TypeM::prim("int32")),
                    _ => TypeM::result(TypeM::prim("int32"), TypeM::prim("string")),
                },
                "key-non-compact-struct" => {
                    let sn = unique_def_name(p, "InjK");
                    if !add_def(p, fresh_struct(&sn, vec![field("a", TypeM::prim("int32"))], false)) {
                        return false;
                    }
                    TypeM::named(&sn)
                }
                "key-compact-struct-bad-field" => {
                    let sn = unique_def_name(p, "InjK");
                    let bad = match pick(u, 4) {
                        0 => TypeM::prim("string").opt(),
                        1 => TypeM::prim("float32"),
                        2 => TypeM::seq(TypeM::prim("uint8")),
                        _ => {
                            // nested: a compact struct whose field is a compact struct with an optional field
                            let inner = unique_def_name(p, "InjKK");
                            if !add_def(p, fresh_struct(&inner, vec![field("z", TypeM::prim("bool").opt())], true)) {
                                return false;
                            }
                            TypeM::named(&inner)
                        }
                    };
                    if !add_def(p, fresh_struct(&sn, vec![field("a", TypeM::prim("int32")), field("b", bad)], true)) {
                        return false;
                    }
                    TypeM::named(&sn)
                }
                _ => {
                    let en = unique_def_name(p, "InjK");
                    if !add_def(
                        p,
                        DefM::Enum(EnumM {
                            pre: Prelude::default(),
                            compact: false,
                            unchecked: false,
                            name: en.clone(),
                            underlying: None,
                            enumerators: vec![EnumeratorM {
                                pre: Prelude::default(),
                                name: "A".into(),
                                fields: None,
                                value: None,
                                effective: 0,
                            }],
                        }),
                    ) {
                        return false;
                    }
                    TypeM::named(&en)
                }
            };
            let dict = TypeM::dict(key, TypeM::prim("int8"));
            // position: field / alias target / parameter / nested in a sequence / through an alias
            match pick(u, 5) {
                0 => add_def(p, fresh_struct(&n, vec![field("d", dict)], false)),
                1 => add_def(
                    p,
                    DefM::Alias(AliasM {
                        pre: Prelude::default(),
                        name: n,
                        ty: dict,
                    }),
                ),
                2 => add_def(
                    p,
                    DefM::Interface(InterfaceM {
                        pre: Prelude::default(),
                        name: n,
                        bases: vec![],
                        ops: vec![OpM {
                            pre: Prelude::default(),
                            idempotent: false,
                            name: "op".into(),
                            params: vec![param("d", dict)],
                            ret: RetM::None,
                        }],
                    }),
                ),
                3 => add_def(p, fresh_struct(&n, vec![field("d", TypeM::seq(dict).opt())], false)),
                _ => {
                    let an = unique_def_name(p, "InjA");
                    if !add_def(
                        p,
                        DefM::Alias(AliasM {
                            pre: Prelude::default(),
                            name: an.clone(),
                            ty: dict,
                        }),
                    ) {
                        return false;
                    }
                    add_def(p, fresh_struct(&n, vec![field("d", TypeM::named(&an))], false))
                }
            }
        }
        "stream-not-last" | "stream-twice" => {
            let n = unique_def_name(p, "Inj");
            let mut a = param("a", TypeM::prim("int32"));
            let mut b = param("b", TypeM::prim("string"));
            let c = param("c", TypeM::prim("bool"));
            a.stream = true;
            let list = if name == "stream-not-last" {
                if chance(u, 128) {
                    vec![a, b, c]
                } else {
                    vec![b, a, c]
                }
            } else {
                b.stream = true;
                if chance(u, 128) {
                    vec![a, b]
                } else {
                    vec![c, a, b]
                }
            };
            let in_return = chance(u, 110) && list.len() >= 2;
            let op = OpM {
                pre: Prelude::default(),
                idempotent: false,
                name: "op".into(),
                params: if in_return { vec![] } else { list.clone() },
                ret: if in_return { RetM::Tuple(list) } else { RetM::None },
            };
            add_def(
                p,
                DefM::Interface(InterfaceM {
                    pre: Prelude::default(),
                    name: n,
                    bases: vec![],
                    ops: vec![op],
                }),
            )
        }
        "return-tuple-one" | "return-tuple-zero" => {
            let n = unique_def_name(p, "Inj");
            let list = if name == "return-tuple-one" { vec![param("a", TypeM::prim("int32"))] } else { vec![] };
            add_def(
                p,
                DefM::Interface(InterfaceM {
                    pre: Prelude::default(),
                    name: n,
                    bases: vec![],
                    ops: vec![OpM {
                        pre: Prelude::default(),
                        idempotent: false,
                        name: "op".into(),
                        params: vec![],
                        ret: RetM::Tuple(list),
                    }],
                }),
            )
        }
        "inherited-operation-redeclared" => {
            let base = unique_def_name(p, "InjB");
            let mid = unique_def_name(p, "InjM");
            let derived = unique_def_name(p, "InjD");
            let op = |n: &str| OpM {
                pre: Prelude::default(),
                idempotent: false,
                name: n.to_owned(),
                params: vec![],
                ret: RetM::None,
            };
            let iface = |n: &str, bases: Vec<&str>, ops: Vec<OpM>| {
                DefM::Interface(InterfaceM {
                    pre: Prelude::default(),
                    name: n.to_owned(),
                    bases: bases.into_iter().map(TypeM::named).collect(),
                    ops,
                })
            };
            if chance(u, 80) {
                // two bases with the same simple name in two other modules (files of their own);
                // the redeclared operation comes from the later-listed one, directly or through a
                // middle interface
                let ma = format!("{base}ModA");
                let mb = format!("{base}ModB");
                for (m, o) in [(&ma, "first"), (&mb, "ping")] {
                    let idx = p.files.len();
                    p.files.push(FileM {
                        path: format!("string-{idx}"),
                        file_attrs: vec![],
                        module: Some(ModuleM { attrs: vec![], path: vec![m.clone()] }),
                        defs: vec![iface("Base", vec![], vec![op(o), op(&format!("only{o}"))])],
                    });
                }
                let (a, b) = (format!("::{ma}::Base"), format!("::{mb}::Base"));
                return if chance(u, 128) {
                    add_def(p, iface(&mid, vec![&b], vec![op("mid")])) && add_def(p, iface(&derived, vec![&a, &mid], vec![op("ping")]))
                } else {
                    add_def(p, iface(&derived, vec![&a, &b], vec![op("x"), op("ping")]))
                };
            }
            if !add_def(p, iface(&base, vec![], vec![op("ping"), op("other")])) {
                return false;
            }
            if chance(u, 128) {
                // transitively inherited
                add_def(p, iface(&mid, vec![&base], vec![op("mid")]));
                add_def(p, iface(&derived, vec![&mid], vec![op("x"), op("ping")]))
            } else {
                add_def(p, iface(&derived, vec![&base], vec![op("ping")]))
            }
        }
        "name-definition-vs-module" => {
            // `module P::Q` in one new file, a definition `Q` in `module P` in another (either order)
            let pm = unique_def_name(p, "InjP");
            let q = unique_def_name(p, "InjQ");
            let inner = FileM {
                path: String::new(),
                file_attrs: vec![],
                module: Some(ModuleM { attrs: vec![], path: vec![pm.clone(), q.clone()] }),
                defs: vec![DefM::Custom(CustomM { pre: Prelude::default(), name: "Inner".into() })],
            };
            let def = match pick(u, 4) {
                0 => fresh_struct(&q, vec![], false),
                1 => DefM::Custom(CustomM { pre: Prelude::default(), name: q.clone() }),
                2 => DefM::Alias(AliasM { pre: Prelude::default(), name: q.clone(), ty: TypeM::prim("bool") }),
                _ => DefM::Interface(InterfaceM { pre: Prelude::default(), name: q.clone(), bases: vec![], ops: vec![] }),
            };
            let outer = FileM {
                path: String::new(),
                file_attrs: vec![],
                module: Some(ModuleM { attrs: vec![], path: vec![pm] }),
                defs: vec![def],
            };
            let pair = if chance(u, 128) { [inner, outer] } else { [outer, inner] };
            for mut f in pair {
                f.path = format!("string-{}", p.files.len());
                p.files.push(f);
            }
            true
        }
        "alias-of-optional" => {
            let n = unique_def_name(p, "Inj");
            let t = if chance(u, 128) { TypeM::prim("int32").opt() } else { TypeM::seq(TypeM::prim("int32")).opt() };
            add_def(
                p,
                DefM::Alias(AliasM {
                    pre: Prelude::default(),
                    name: n,
                    ty: t,
                }),
            )
        }
        "module-missing" => {
            // a file with definitions but no module declaration
            let idx = p.files.len();
            p.files.push(FileM {
                path: format!("string-{idx}"),
                file_attrs: vec![],
                module: None,
                defs: vec![DefM::Custom(CustomM {
                    pre: Prelude::default(),
                    name: "Orphan".into(),
                })],
            });
            true
        }
        "attribute-unknown" | "attribute-wrong-target" | "attribute-bad-argument" | "attribute-argument-count"
        | "attribute-repeated" => {
            let n = unique_def_name(p, "Inj");
            let sel = pick(u, 6);
            let attr = match name {
                "attribute-unknown" => AttrM::new(["foo", "Deprecated", "allow2", "struct"][pick(u, 4)], &[]),
                "attribute-bad-argument" => match pick(u, 4) {
                    0 => AttrM::new("allow", &["Bogus"]),
                    1 => AttrM::new("allow", &["DuplicateFile"]),
                    2 => AttrM::new("allow", &["deprecated"]),
                    _ => AttrM::new("allow", &["All", "all"]),
                },
                "attribute-argument-count" => match pick(u, 2) {
                    0 => AttrM::new("allow", &[]),
                    _ => AttrM::new("deprecated", &["a", "b"]),
                },
                _ => AttrM::new("deprecated", &[]),
            };
            match name {
                "attribute-wrong-target" => {
                    // per target kind, an attribute that is illegal there
                    match sel {
                        0 => {
                            let mut s = StructM {
                                name: n,
                                ..Default::default()
                            };
                            s.pre.attrs.push(AttrM::new(["oneway", "compress", "slicedFormat"][pick(u, 3)], if pick(u, 2) == 0 { &[] } else { &["Args"] }));
                            // oneway takes no argument, the others need one: keep the argument shape legal
                            let a = s.pre.attrs.last_mut().unwrap();
                            if a.directive == "oneway" {
                                a.args.clear();
                            } else if a.args.is_empty() {
                                a.args.push("Args".into());
                            }
                            add_def(p, DefM::Struct(s))
                        }
                        1 => {
                            let mut f = field("a", TypeM::prim("int32"));
                            f.ty.attrs.push(AttrM::new(["deprecated", "allow"][pick(u, 2)], &[]));
                            if f.ty.attrs[0].directive == "allow" {
                                f.ty.attrs[0].args.push("All".into());
                            }
                            add_def(p, fresh_struct(&n, vec![f], false))
                        }
                        2 => {
                            let mut prm = param("a", TypeM::prim("int32"));
                            prm.pre.attrs.push(AttrM::new("deprecated", &[]));
                            let in_return = chance(u, 128);
                            let other = param("b", TypeM::prim("bool"));
                            add_def(
                                p,
                                DefM::Interface(InterfaceM {
                                    pre: Prelude::default(),
                                    name: n,
                                    bases: vec![],
                                    ops: vec![OpM {
                                        pre: Prelude::default(),
                                        idempotent: false,
                                        name: "op".into(),
                                        params: if in_return { vec![] } else { vec![prm.clone()] },
                                        ret: if in_return { RetM::Tuple(vec![prm, other]) } else { RetM::None },
                                    }],
                                }),
                            )
                        }
                        3 => {
                            // oneway on an operation that returns something
                            add_def(
                                p,
                                DefM::Interface(InterfaceM {
                                    pre: Prelude::default(),
                                    name: n,
                                    bases: vec![],
                                    ops: vec![OpM {
                                        pre: Prelude {
                                            doc: vec![],
                                            attrs: vec![AttrM::new("oneway", &[])],
                                            docm: None,
                                        },
                                        idempotent: false,
                                        name: "op".into(),
                                        params: vec![],
                                        ret: RetM::Single(Box::new(param("", TypeM::prim("int32")))),
                                    }],
                                }),
                            )
                        }
                        4 => match first_module_file(p) {
                            Some(f) => {
                                f.module.as_mut().unwrap().attrs.push(AttrM::new(["deprecated", "allow"][pick(u, 2)], &[]));
                                let a = f.module.as_mut().unwrap().attrs.last_mut().unwrap();
                                if a.directive == "allow" {
                                    a.args.push("All".into());
                                }
                                true
                            }
                            None => false,
                        },
                        _ => match first_module_file(p) {
                            Some(f) => {
                                f.file_attrs.push(AttrM::new("deprecated", &[]));
                                true
                            }
                            None => false,
                        },
                    }
                }
                "attribute-repeated" => {
                    let mut s = StructM {
                        name: n.clone(),
                        ..Default::default()
                    };
                    if sel < 3 {
                        // on an operation: another non-repeatable attribute between the two uses
                        let between = [AttrM::new("slicedFormat", &["Args"]), AttrM::new("deprecated", &[]), AttrM::new("oneway", &[])][sel % 3].clone();
                        let mut o = OpM {
                            pre: Prelude::default(),
                            idempotent: false,
                            name: "op".into(),
                            params: vec![],
                            ret: RetM::None,
                        };
                        o.pre.attrs.push(AttrM::new("compress", &["Args"]));
                        o.pre.attrs.push(between);
                        if chance(u, 128) {
                            o.pre.attrs.push(AttrM::new("cs::x", &[]));
                        }
                        o.pre.attrs.push(AttrM::new("compress", &["Return"]));
                        return add_def(
                            p,
                            DefM::Interface(InterfaceM {
                                pre: Prelude::default(),
                                name: n,
                                bases: vec![],
                                ops: vec![o],
                            }),
                        );
                    }
                    s.pre.attrs.push(AttrM::new("deprecated", &[]));
                    s.pre.attrs.push(AttrM::new("cs::x", &[]));
                    s.pre.attrs.push(AttrM::new("deprecated", &["again"]));
                    add_def(p, DefM::Struct(s))
                }
                _ => {
                    // place the malformed attribute on one of several targets
                    match sel {
                        0 | 1 => {
                            let mut s = StructM {
                                name: n,
                                ..Default::default()
                            };
                            s.pre.attrs.push(attr);
                            add_def(p, DefM::Struct(s))
                        }
                        2 => {
                            let mut f = field("a", TypeM::prim("int32"));
                            f.pre.attrs.push(attr);
                            add_def(p, fresh_struct(&n, vec![f], false))
                        }
                        3 => match first_module_file(p) {
                            Some(f) => {
                                f.file_attrs.push(attr);
                                true
                            }
                            None => false,
                        },
                        4 => {
                            let mut f = field("a", TypeM::prim("int32"));
                            // on a type reference only the unknown-attribute rule applies the same way
                            if name == "attribute-unknown" {
                                f.ty.attrs.push(attr);
                            } else {
                                f.pre.attrs.push(attr);
                            }
                            add_def(p, fresh_struct(&n, vec![f], false))
                        }
                        _ => {
                            let mut c = CustomM {
                                name: n,
                                ..Default::default()
                            };
                            c.pre.attrs.push(attr);
                            add_def(p, DefM::Custom(c))
                        }
                    }
                }
            }
        }
        "name-duplicate-member" => {
            let n = unique_def_name(p, "Inj");
            match pick(u, 5) {
                0 => add_def(p, fresh_struct(&n, vec![field("a", TypeM::prim("int32")), field("b", TypeM::prim("bool")), field("a", TypeM::prim("string"))], false)),
                1 => add_def(
                    p,
                    DefM::Interface(InterfaceM {
                        pre: Prelude::default(),
                        name: n,
                        bases: vec![],
                        ops: vec![OpM {
                            pre: Prelude::default(),
                            idempotent: false,
                            name: "op".into(),
                            params: vec![param("a", TypeM::prim("int32")), param("a", TypeM::prim("bool"))],
                            ret: RetM::None,
                        }],
                    }),
                ),
                2 => add_def(
                    p,
                    DefM::Interface(InterfaceM {
                        pre: Prelude::default(),
                        name: n,
                        bases: vec![],
                        ops: vec![OpM {
                            pre: Prelude::default(),
                            idempotent: false,
                            name: "op".into(),
                            params: vec![],
                            ret: RetM::Tuple(vec![param("a", TypeM::prim("int32")), param("b", TypeM::prim("bool")), param("a", TypeM::prim("bool"))]),
                        }],
                    }),
                ),
                3 => {
                    let op = |nm: &str| OpM {
                        pre: Prelude::default(),
                        idempotent: false,
                        name: nm.to_owned(),
                        params: vec![],
                        ret: RetM::None,
                    };
                    add_def(
                        p,
                        DefM::Interface(InterfaceM {
                            pre: Prelude::default(),
                            name: n,
                            bases: vec![],
                            ops: vec![op("go"), op("stop"), op("go")],
                        }),
                    )
                }
                _ => {
                    let e = |nm: &str| EnumeratorM {
                        pre: Prelude::default(),
                        name: nm.to_owned(),
                        fields: None,
                        value: None,
                        effective: 0,
                    };
                    add_def(
                        p,
                        DefM::Enum(EnumM {
                            pre: Prelude::default(),
                            compact: false,
                            unchecked: false,
                            name: n,
                            underlying: None,
                            enumerators: vec![e("A"), e("B"), e("A")],
                        }),
                    )
                }
            }
        }
        "name-duplicate-definition" => {
            // the same name twice in one module: same file, or another file of the same module
            let Some(f) = first_module_file(p) else { return false };
            let module = f.module.clone();
            let n = "Dup".to_owned();
            f.defs.push(DefM::Custom(CustomM {
                pre: Prelude::default(),
                name: n.clone(),
            }));
            let second = match pick(u, 3) {
                0 => DefM::Custom(CustomM {
                    pre: Prelude::default(),
                    name: n,
                }),
                1 => fresh_struct(&n, vec![], false),
                _ => DefM::Alias(AliasM {
                    pre: Prelude::default(),
                    name: n,
                    ty: TypeM::prim("bool"),
                }),
            };
            if chance(u, 128) {
                first_module_file(p).unwrap().defs.push(second);
            } else {
                let idx = p.files.len();
                p.files.push(FileM {
                    path: format!("string-{idx}"),
                    file_attrs: vec![],
                    module,
                    defs: vec![second],
                });
            }
            true
        }
        "name-duplicate-enumerator-field" => {
            let n = unique_def_name(p, "Inj");
            add_def(
                p,
                DefM::Enum(EnumM {
                    pre: Prelude::default(),
                    compact: false,
                    unchecked: false,
                    name: n,
                    underlying: None,
                    enumerators: vec![
                        EnumeratorM {
                            pre: Prelude::default(),
                            name: "A".into(),
                            fields: Some(vec![field("x", TypeM::prim("int32"))]),
                            value: None,
                            effective: 0,
                        },
                        EnumeratorM {
                            pre: Prelude::default(),
                            name: "B".into(),
                            fields: Some(vec![field("x", TypeM::prim("int32")), field("y", TypeM::prim("bool")), field("x", TypeM::prim("string"))]),
                            value: None,
                            effective: 1,
                        },
                    ],
                }),
            )
        }
        "type-missing" => {
            let n = unique_def_name(p, "Inj");
            let missing = ["Missing", "::Missing", "A::Missing", "M::Nope::X"][pick(u, 4)];
            match pick(u, 4) {
                0 => add_def(p, fresh_struct(&n, vec![field("a", TypeM::named(missing))], false)),
                1 => add_def(p, fresh_struct(&n, vec![field("a", TypeM::seq(TypeM::named(missing)))], false)),
                2 => add_def(
                    p,
                    DefM::Alias(AliasM {
                        pre: Prelude::default(),
                        name: n,
                        ty: TypeM::named(missing),
                    }),
                ),
                _ => add_def(
                    p,
                    DefM::Interface(InterfaceM {
                        pre: Prelude::default(),
                        name: n,
                        bases: vec![TypeM::named(missing)],
                        ops: vec![],
                    }),
                ),
            }
        }
        "type-wrong-kind" => {
            let n = unique_def_name(p, "Inj");
            let i = unique_def_name(p, "InjI");
            let s = unique_def_name(p, "InjS");
            if !add_def(
                p,
                DefM::Interface(InterfaceM {
                    pre: Prelude::default(),
                    name: i.clone(),
                    bases: vec![],
                    ops: vec![OpM {
                        pre: Prelude::default(),
                        idempotent: false,
                        name: "op".into(),
                        params: vec![param("prm", TypeM::prim("int32"))],
                        ret: RetM::None,
                    }],
                }),
            ) {
                return false;
            }
            add_def(p, fresh_struct(&s, vec![field("fld", TypeM::prim("int32"))], false));
            match pick(u, 10) {
                // a primitive or an anonymous type as interface base (alone, or after a good base)
                6 | 7 | 8 => {
                    let bad = match pick(u, 4) {
                        0 => TypeM::prim("int32"),
                        1 => TypeM::seq(TypeM::prim("int32")),
                        2 => TypeM::result(TypeM::prim("bool"), TypeM::prim("string")),
                        _ => TypeM::dict(TypeM::prim("uint8"), TypeM::named(&s)),
                    };
                    let bases = if chance(u, 128) { vec![bad] } else { vec![TypeM::named(&i), bad] };
                    add_def(
                        p,
                        DefM::Interface(InterfaceM {
                            pre: Prelude::default(),
                            name: n,
                            bases,
                            ops: vec![],
                        }),
                    )
                }
                // an anonymous type as underlying type of an enum
                9 => {
                    let bad = if chance(u, 128) { TypeM::seq(TypeM::prim("uint8")) } else { TypeM::dict(TypeM::prim("uint8"), TypeM::prim("bool")) };
                    add_def(
                        p,
                        DefM::Enum(EnumM {
                            pre: Prelude::default(),
                            compact: false,
                            unchecked: chance(u, 128),
                            name: n,
                            underlying: Some(bad),
                            enumerators: vec![EnumeratorM {
                                pre: Prelude::default(),
                                name: "X".into(),
                                fields: None,
                                value: Some(7),
                                effective: 7,
                            }],
                        }),
                    )
                }
                // an interface where a type is expected
                0 => add_def(p, fresh_struct(&n, vec![field("a", TypeM::named(&i))], false)),
                // a field / operation / parameter name where a type is expected
                1 => add_def(p, fresh_struct(&n, vec![field("a", TypeM::named(&format!("{s}::fld")))], false)),
                2 => add_def(p, fresh_struct(&n, vec![field("a", TypeM::named(&format!("{i}::op")))], false)),
                3 => add_def(p, fresh_struct(&n, vec![field("a", TypeM::named(&format!("{i}::op::prm")))], false)),
                // a struct as interface base
                4 => add_def(
                    p,
                    DefM::Interface(InterfaceM {
                        pre: Prelude::default(),
                        name: n,
                        bases: vec![TypeM::named(&s)],
                        ops: vec![],
                    }),
                ),
                // an alias of an interface
                _ => add_def(
                    p,
                    DefM::Alias(AliasM {
                        pre: Prelude::default(),
                        name: n,
                        ty: TypeM::named(&i),
                    }),
                ),
            }
        }
        "alias-loop" => {
            let a = unique_def_name(p, "InjLA");
            let b = unique_def_name(p, "InjLB");
            let c = unique_def_name(p, "InjLC");
            let al = |n: &str, t: &str| {
                DefM::Alias(AliasM {
                    pre: Prelude::default(),
                    name: n.to_owned(),
                    ty: TypeM::named(t),
                })
            };
            match pick(u, 3) {
                0 => add_def(p, al(&a, &a)),
                1 => add_def(p, al(&a, &b)) && add_def(p, al(&b, &a)),
                _ => add_def(p, al(&a, &b)) && add_def(p, al(&b, &c)) && add_def(p, al(&c, &a)),
            }
        }
        "containment-cycle" => {
            let a = unique_def_name(p, "InjCA");
            let b = unique_def_name(p, "InjCB");
            let wrap = |t: TypeM, u: &mut Unstructured| match pick(u, 6) {
                0 => t,
                1 => t.opt(),
                2 => TypeM::seq(t),
                3 => TypeM::dict(TypeM::prim("int32"), t),
                4 => TypeM::result(t, TypeM::prim("string")),
                _ => TypeM::result(TypeM::prim("bool"), TypeM::seq(t.opt())),
            };
            if chance(u, 128) {
                let t = wrap(TypeM::named(&a), u);
                add_def(p, fresh_struct(&a, vec![field("self_", t)], false))
            } else {
                let ta = wrap(TypeM::named(&b), u);
                let tb = wrap(TypeM::named(&a), u);
                add_def(p, fresh_struct(&a, vec![field("b", ta)], false)) && add_def(p, fresh_struct(&b, vec![field("x", TypeM::prim("int32")), field("a", tb)], false))
            }
        }
        "doc-on-parameter" => {
            let n = unique_def_name(p, "Inj");
            let mut prm = param("a", TypeM::prim("int32"));
            prm.pre.doc.push(" not allowed here".into());
            add_def(
                p,
                DefM::Interface(InterfaceM {
                    pre: Prelude::default(),
                    name: n,
                    bases: vec![],
                    ops: vec![OpM {
                        pre: Prelude::default(),
                        idempotent: false,
                        name: "op".into(),
                        params: vec![prm],
                        ret: RetM::None,
                    }],
                }),
            )
        }
        _ => false,
    }
}

/// Extra site helper for checks that want to tamper with existing elements.
pub fn any_enum_mut<'a>(p: &'a mut Program, u: &mut Unstructured) -> Option<&'a mut EnumM> {
    let mut es = enums_mut(p);
    if es.is_empty() {
        return None;
    }
    let i = pick(u, es.len());
    Some(es.swap_remove(i))
}

pub fn any_op_mut<'a>(p: &'a mut Program, u: &mut Unstructured) -> Option<&'a mut OpM> {
    let mut os = ops_mut(p);
    if os.is_empty() {
        return None;
    }
    let i = pick(u, os.len());
    Some(os.swap_remove(i))
}
