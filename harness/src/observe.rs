//! Re-builds an abstract `Program` (and the spans of all its parts) from a `CompilationState`,
//! using only the public API of slicec.
//!
//! Named type references are observed *resolved* (the AST does not keep the written spelling):
//! they appear as `TypeK::Named("@<kind> <module scoped id>")`; aliases are transparent (the
//! reference shows the final target, with the attributes accumulated from the alias links).  The
//! expected side is produced from the model by `refcheck::resolve_program`.

use crate::model::*;
use slicec::compilation_state::CompilationState;
use slicec::grammar::attributes::{Allow, Compress, Deprecated, Oneway, SlicedFormat, Unparsed};
use slicec::grammar::*;
use slicec::slice_file::{SliceFile, Span};
use std::collections::BTreeMap;

pub fn observe_attr(a: &Attribute) -> AttrM {
    let directive = a.kind.directive().to_owned();
    let args: Vec<String> = if let Some(u) = a.downcast::<Unparsed>() {
        u.args.clone()
    } else if let Some(x) = a.downcast::<Allow>() {
        x.allowed_lints.clone()
    } else if let Some(x) = a.downcast::<Deprecated>() {
        x.reason.iter().cloned().collect()
    } else if let Some(x) = a.downcast::<Compress>() {
        let mut v = Vec::new();
        if x.compress_args {
            v.push("Args".to_owned());
        }
        if x.compress_return {
            v.push("Return".to_owned());
        }
        v
    } else if a.downcast::<Oneway>().is_some() {
        Vec::new()
    } else if let Some(x) = a.downcast::<SlicedFormat>() {
        let mut v = Vec::new();
        if x.sliced_args {
            v.push("Args".to_owned());
        }
        if x.sliced_return {
            v.push("Return".to_owned());
        }
        v
    } else {
        vec!["<unknown attribute kind>".to_owned()]
    };
    AttrM { directive, args }
}

/// The typed attributes do not keep their arguments verbatim; this is the same projection applied
/// to a written attribute (valid programs only).
pub fn normalize_attr(a: &AttrM) -> AttrM {
    let args = match a.directive.as_str() {
        "compress" | "slicedFormat" => {
            let mut v = Vec::new();
            if a.args.iter().any(|x| x == "Args") {
                v.push("Args".to_owned());
            }
            if a.args.iter().any(|x| x == "Return") {
                v.push("Return".to_owned());
            }
            v
        }
        "deprecated" => a.args.iter().take(1).cloned().collect(),
        "oneway" => Vec::new(),
        _ => a.args.clone(),
    };
    AttrM {
        directive: a.directive.clone(),
        args,
    }
}

fn attrs_of(v: Vec<&Attribute>) -> Vec<AttrM> {
    v.into_iter().map(observe_attr).collect()
}

pub fn observe_type<T: Element + ?Sized>(tr: &TypeRef<T>, describe: impl Fn(&T) -> TypeK) -> TypeM {
    let kind = match &tr.definition {
        TypeRefDefinition::Patched(p) => describe(p.borrow()),
        TypeRefDefinition::Unpatched(id) => TypeK::Named(format!("@unpatched {}", id.value)),
    };
    TypeM {
        attrs: attrs_of(tr.attributes()),
        kind,
        optional: tr.is_optional,
    }
}

pub fn describe_type(t: &dyn Type) -> TypeK {
    match t.concrete_type() {
        Types::Struct(s) => TypeK::Named(format!("@struct {}", s.module_scoped_identifier())),
        Types::Enum(e) => TypeK::Named(format!("@enum {}", e.module_scoped_identifier())),
        Types::CustomType(c) => TypeK::Named(format!("@custom {}", c.module_scoped_identifier())),
        Types::Primitive(p) => TypeK::Prim(p.kind().to_owned()),
        Types::Sequence(s) => TypeK::Seq(Box::new(observe_dyn_type(&s.element_type))),
        Types::Dictionary(d) => TypeK::Dict(
            Box::new(observe_dyn_type(&d.key_type)),
            Box::new(observe_dyn_type(&d.value_type)),
        ),
        Types::ResultType(r) => TypeK::Result(
            Box::new(observe_dyn_type(&r.success_type)),
            Box::new(observe_dyn_type(&r.failure_type)),
        ),
    }
}

pub fn observe_dyn_type(tr: &TypeRef) -> TypeM {
    observe_type(tr, |t| describe_type(t))
}

fn prelude_of(attrs: Vec<&Attribute>) -> Prelude {
    Prelude {
        doc: Vec::new(),
        attrs: attrs_of(attrs),
        docm: None,
    }
}

fn observe_field(f: &Field) -> FieldM {
    FieldM {
        pre: prelude_of(f.attributes()),
        tag: f.tag().map(|t| t as i128),
        name: f.identifier().to_owned(),
        ty: observe_dyn_type(&f.data_type),
    }
}

fn observe_param(p: &Parameter) -> ParamM {
    ParamM {
        pre: prelude_of(p.attributes()),
        tag: p.tag().map(|t| t as i128),
        name: p.identifier().to_owned(),
        stream: p.is_streamed,
        ty: observe_dyn_type(&p.data_type),
    }
}

pub fn observe_def(d: &Definition) -> DefM {
    match d {
        Definition::Struct(p) => {
            let s = p.borrow();
            DefM::Struct(StructM {
                pre: prelude_of(s.attributes()),
                compact: s.is_compact,
                name: s.identifier().to_owned(),
                fields: s.fields().into_iter().map(observe_field).collect(),
            })
        }
        Definition::Interface(p) => {
            let i = p.borrow();
            DefM::Interface(InterfaceM {
                pre: prelude_of(i.attributes()),
                name: i.identifier().to_owned(),
                bases: i
                    .bases
                    .iter()
                    .map(|b| observe_type(b, |x: &Interface| TypeK::Named(format!("@interface {}", x.module_scoped_identifier()))))
                    .collect(),
                ops: i
                    .operations()
                    .into_iter()
                    .map(|op| {
                        let rets: Vec<ParamM> = op.return_members().into_iter().map(observe_param).collect();
                        let ret = match rets.len() {
                            0 => RetM::None,
                            1 => {
                                let mut only = rets.into_iter().next().unwrap();
                                only.name = String::new();
                                RetM::Single(Box::new(only))
                            }
                            _ => RetM::Tuple(rets),
                        };
                        OpM {
                            pre: prelude_of(op.attributes()),
                            idempotent: op.is_idempotent,
                            name: op.identifier().to_owned(),
                            params: op.parameters().into_iter().map(observe_param).collect(),
                            ret,
                        }
                    })
                    .collect(),
            })
        }
        Definition::Enum(p) => {
            let e = p.borrow();
            DefM::Enum(EnumM {
                pre: prelude_of(e.attributes()),
                compact: e.is_compact,
                unchecked: e.is_unchecked,
                name: e.identifier().to_owned(),
                underlying: e
                    .underlying
                    .as_ref()
                    .map(|u| observe_type(u, |x: &Primitive| TypeK::Prim(x.kind().to_owned()))),
                enumerators: e
                    .enumerators()
                    .into_iter()
                    .map(|en| EnumeratorM {
                        pre: prelude_of(en.attributes()),
                        name: en.identifier().to_owned(),
                        fields: en
                            .fields
                            .as_ref()
                            .map(|fs| fs.iter().map(|f| observe_field(f.borrow())).collect()),
                        value: match &en.value {
                            EnumeratorValue::Explicit(i) => Some(i.value),
                            EnumeratorValue::Implicit(_) => None,
                        },
                        effective: en.value(),
                    })
                    .collect(),
            })
        }
        Definition::CustomType(p) => {
            let c = p.borrow();
            DefM::Custom(CustomM {
                pre: prelude_of(c.attributes()),
                name: c.identifier().to_owned(),
            })
        }
        Definition::TypeAlias(p) => {
            let a = p.borrow();
            DefM::Alias(AliasM {
                pre: prelude_of(a.attributes()),
                name: a.identifier().to_owned(),
                ty: observe_dyn_type(&a.underlying),
            })
        }
    }
}

pub fn observe_file(f: &SliceFile) -> FileM {
    FileM {
        path: f.relative_path.clone(),
        file_attrs: attrs_of(f.attributes()),
        module: f.module.as_ref().map(|m| {
            let m = m.borrow();
            ModuleM {
                attrs: attrs_of(m.attributes()),
                path: m.nested_module_identifier().split("::").map(|s| s.to_owned()).collect(),
            }
        }),
        defs: f.contents.iter().map(observe_def).collect(),
    }
}

pub fn observe_program(state: &CompilationState) -> Program {
    Program {
        files: state.files.iter().map(observe_file).collect(),
    }
}

// ------------------------------------------------------------------------------------------
// Spans, keyed by the same paths `render` records
// ------------------------------------------------------------------------------------------

#[derive(Clone, Debug, PartialEq, Eq)]
pub struct SpanObs {
    pub start: (usize, usize),
    pub end: (usize, usize),
    pub file: String,
}

impl From<&Span> for SpanObs {
    fn from(s: &Span) -> SpanObs {
        SpanObs {
            start: (s.start.row, s.start.col),
            end: (s.end.row, s.end.col),
            file: s.file.clone(),
        }
    }
}

#[derive(Default)]
pub struct Spans {
    /// element path -> span of the element itself
    pub elems: BTreeMap<String, SpanObs>,
    /// `<path>/name` -> identifier span; `<path>/tag`, `<path>/value` -> integer spans
    pub ranges: BTreeMap<String, SpanObs>,
    /// type expression path -> span
    pub types: BTreeMap<String, SpanObs>,
    /// attribute path -> span
    pub attrs: BTreeMap<String, SpanObs>,
    /// doc comment (whole) of an element, and its parts
    pub docs: BTreeMap<String, Vec<(String, SpanObs)>>,
}

fn span_attrs(out: &mut Spans, path: &str, prefix: &str, attrs: Vec<&Attribute>) {
    for (n, a) in attrs.into_iter().enumerate() {
        out.attrs.insert(format!("{path}/{prefix}{n}"), a.span().into());
    }
}

/// Type spans are recorded only along the *written* structure: a reference that resolves through
/// an alias to an anonymous type is not descended into (those nodes were written elsewhere).
fn span_type(out: &mut Spans, path: &str, tr: &TypeRef, written: &TypeM) {
    out.types.insert(path.to_owned(), tr.span().into());
    // attributes written at the use site come first in `attributes`
    for (n, a) in tr.attributes.iter().take(written.attrs.len()).enumerate() {
        out.attrs.insert(format!("{path}/attr{n}"), a.borrow().span().into());
    }
    if matches!(&tr.definition, TypeRefDefinition::Unpatched(_)) {
        return;
    }
    match (&written.kind, tr.concrete_type()) {
        (TypeK::Seq(e), Types::Sequence(s)) => span_type(out, &format!("{path}/0"), &s.element_type, e),
        (TypeK::Dict(k, v), Types::Dictionary(d)) => {
            span_type(out, &format!("{path}/0"), &d.key_type, k);
            span_type(out, &format!("{path}/1"), &d.value_type, v);
        }
        (TypeK::Result(a, b), Types::ResultType(r)) => {
            span_type(out, &format!("{path}/0"), &r.success_type, a);
            span_type(out, &format!("{path}/1"), &r.failure_type, b);
        }
        _ => {}
    }
}

fn span_doc(out: &mut Spans, path: &str, c: Option<&DocComment>) {
    let Some(c) = c else { return };
    let mut parts: Vec<(String, SpanObs)> = vec![("comment".into(), (&c.span).into())];
    let msg = |parts: &mut Vec<(String, SpanObs)>, label: String, m: &Message| {
        parts.push((label.clone(), (&m.span).into()));
        for (i, comp) in m.value.iter().enumerate() {
            if let MessageComponent::Link(l) = comp {
                parts.push((format!("{label}/link{i}"), (&l.span).into()));
                if let TypeRefDefinition::Unpatched(id) = &l.link {
                    parts.push((format!("{label}/link{i}/id"), (&id.span).into()));
                }
            }
        }
    };
    if let Some(o) = &c.overview {
        msg(&mut parts, "overview".into(), o);
    }
    for (i, p) in c.params.iter().enumerate() {
        parts.push((format!("param{i}"), (&p.span).into()));
        parts.push((format!("param{i}/id"), (&p.identifier.span).into()));
        msg(&mut parts, format!("param{i}/message"), &p.message);
    }
    for (i, r) in c.returns.iter().enumerate() {
        parts.push((format!("returns{i}"), (&r.span).into()));
        if let Some(id) = &r.identifier {
            parts.push((format!("returns{i}/id"), (&id.span).into()));
        }
        msg(&mut parts, format!("returns{i}/message"), &r.message);
    }
    for (i, s) in c.see.iter().enumerate() {
        parts.push((format!("see{i}"), (&s.span).into()));
        if let TypeRefDefinition::Unpatched(id) = &s.link {
            parts.push((format!("see{i}/id"), (&id.span).into()));
        }
    }
    out.docs.insert(path.to_owned(), parts);
}

fn span_field(out: &mut Spans, path: &str, f: &Field, written: &FieldM) {
    out.elems.insert(path.to_owned(), f.span().into());
    out.ranges.insert(format!("{path}/name"), f.raw_identifier().span().into());
    if let Some(t) = f.raw_tag() {
        out.ranges.insert(format!("{path}/tag"), t.span().into());
    }
    span_attrs(out, path, "attr", f.attributes());
    span_doc(out, path, f.comment());
    span_type(out, &format!("{path}/type"), &f.data_type, &written.ty);
}

fn span_param(out: &mut Spans, path: &str, p: &Parameter, written: &ParamM, named: bool) {
    out.elems.insert(path.to_owned(), p.span().into());
    if named {
        out.ranges.insert(format!("{path}/name"), p.raw_identifier().span().into());
    }
    if let Some(t) = p.raw_tag() {
        out.ranges.insert(format!("{path}/tag"), t.span().into());
    }
    span_attrs(out, path, "attr", p.attributes());
    span_type(out, &format!("{path}/type"), &p.data_type, &written.ty);
}

/// Walks the compiled files next to the written model (same shape is a precondition: call after
/// the C02 comparison succeeded) and collects every span under the path `render` uses.
pub fn observe_spans(state: &CompilationState, model: &Program) -> Spans {
    let mut out = Spans::default();
    for (i, (f, fm)) in state.files.iter().zip(&model.files).enumerate() {
        let fp = format!("f{i}");
        span_attrs(&mut out, &fp, "fattr", f.attributes());
        if let (Some(m), Some(_mm)) = (&f.module, &fm.module) {
            let m = m.borrow();
            let mp = format!("{fp}/module");
            out.elems.insert(mp.clone(), m.span().into());
            out.ranges.insert(format!("{mp}/name"), m.raw_identifier().span().into());
            span_attrs(&mut out, &mp, "attr", m.attributes());
        }
        for (j, (d, dm)) in f.contents.iter().zip(&fm.defs).enumerate() {
            let dp = format!("{fp}/d{j}");
            match (d, dm) {
                (Definition::Struct(p), DefM::Struct(sm)) => {
                    let s = p.borrow();
                    out.elems.insert(dp.clone(), s.span().into());
                    out.ranges.insert(format!("{dp}/name"), s.raw_identifier().span().into());
                    span_attrs(&mut out, &dp, "attr", s.attributes());
                    span_doc(&mut out, &dp, s.comment());
                    for (k, (fld, fmm)) in s.fields().into_iter().zip(&sm.fields).enumerate() {
                        span_field(&mut out, &format!("{dp}/m{k}"), fld, fmm);
                    }
                }
                (Definition::Interface(p), DefM::Interface(im)) => {
                    let it = p.borrow();
                    out.elems.insert(dp.clone(), it.span().into());
                    out.ranges.insert(format!("{dp}/name"), it.raw_identifier().span().into());
                    span_attrs(&mut out, &dp, "attr", it.attributes());
                    span_doc(&mut out, &dp, it.comment());
                    for (b, (base, bm)) in it.bases.iter().zip(&im.bases).enumerate() {
                        let bp = format!("{dp}/base{b}");
                        out.types.insert(bp.clone(), base.span().into());
                        for (n, a) in base.attributes.iter().take(bm.attrs.len()).enumerate() {
                            out.attrs.insert(format!("{bp}/attr{n}"), a.borrow().span().into());
                        }
                    }
                    for (k, (op, om)) in it.operations().into_iter().zip(&im.ops).enumerate() {
                        let op_path = format!("{dp}/m{k}");
                        out.elems.insert(op_path.clone(), op.span().into());
                        out.ranges.insert(format!("{op_path}/name"), op.raw_identifier().span().into());
                        span_attrs(&mut out, &op_path, "attr", op.attributes());
                        span_doc(&mut out, &op_path, op.comment());
                        for (q, (prm, pm)) in op.parameters().into_iter().zip(&om.params).enumerate() {
                            span_param(&mut out, &format!("{op_path}/p{q}"), prm, pm, true);
                        }
                        let rets = om.ret.members();
                        let named = matches!(om.ret, RetM::Tuple(_));
                        for (q, (prm, pm)) in op.return_members().into_iter().zip(rets).enumerate() {
                            span_param(&mut out, &format!("{op_path}/r{q}"), prm, pm, named);
                        }
                    }
                }
                (Definition::Enum(p), DefM::Enum(em)) => {
                    let e = p.borrow();
                    out.elems.insert(dp.clone(), e.span().into());
                    out.ranges.insert(format!("{dp}/name"), e.raw_identifier().span().into());
                    span_attrs(&mut out, &dp, "attr", e.attributes());
                    span_doc(&mut out, &dp, e.comment());
                    if let (Some(u), Some(um)) = (&e.underlying, &em.underlying) {
                        let up = format!("{dp}/underlying");
                        out.types.insert(up.clone(), u.span().into());
                        for (n, a) in u.attributes.iter().take(um.attrs.len()).enumerate() {
                            out.attrs.insert(format!("{up}/attr{n}"), a.borrow().span().into());
                        }
                    }
                    for (k, (en, enm)) in e.enumerators().into_iter().zip(&em.enumerators).enumerate() {
                        let ep = format!("{dp}/m{k}");
                        out.elems.insert(ep.clone(), en.span().into());
                        out.ranges.insert(format!("{ep}/name"), en.raw_identifier().span().into());
                        span_attrs(&mut out, &ep, "attr", en.attributes());
                        span_doc(&mut out, &ep, en.comment());
                        if let EnumeratorValue::Explicit(iv) = &en.value {
                            out.ranges.insert(format!("{ep}/value"), iv.span().into());
                        }
                        if let (Some(fs), Some(fms)) = (&en.fields, &enm.fields) {
                            for (q, (fld, fmm)) in fs.iter().zip(fms).enumerate() {
                                span_field(&mut out, &format!("{ep}/m{q}"), fld.borrow(), fmm);
                            }
                        }
                    }
                }
                (Definition::CustomType(p), DefM::Custom(_)) => {
                    let c = p.borrow();
                    out.elems.insert(dp.clone(), c.span().into());
                    out.ranges.insert(format!("{dp}/name"), c.raw_identifier().span().into());
                    span_attrs(&mut out, &dp, "attr", c.attributes());
                    span_doc(&mut out, &dp, c.comment());
                }
                (Definition::TypeAlias(p), DefM::Alias(am)) => {
                    let a = p.borrow();
                    out.elems.insert(dp.clone(), a.span().into());
                    out.ranges.insert(format!("{dp}/name"), a.raw_identifier().span().into());
                    span_attrs(&mut out, &dp, "attr", a.attributes());
                    span_doc(&mut out, &dp, a.comment());
                    span_type(&mut out, &format!("{dp}/type"), &a.underlying, &am.ty);
                }
                _ => {}
            }
        }
    }
    out
}
