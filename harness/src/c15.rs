//! C15 — results are reproducible and do not depend on the order of the inputs.
//!
//! In-process (`compile_from_options` on real files, so that file names do not depend on the
//! position) for volume: every permutation of <= 4 files (sampled) and every source/reference
//! assignment must agree on acceptance, per-path content and the multiset of warnings.  Through the
//! binary: the same argv twice in fresh processes gives byte-identical streams and requests, and
//! permuted runs give per-path identical decoded files.

use crate::c02::split_input;
use crate::compile::*;
use crate::engine::*;
use crate::gen::{gen_program, pick, GenCfg};
use crate::inject::{inject, CATALOGUE};
use crate::model::*;
use crate::observe::observe_file;
use crate::proc::{self, os, CaseDir};
use crate::request::decode_and_interpret;
use crate::{check, fail};
use arbitrary::Unstructured;
use serde_json::json;
use slicec::slice_options::SliceOptions;
use std::collections::BTreeMap;
use std::time::Duration;

pub struct C15;

struct Outcome {
    accepted: bool,
    /// path -> observed content
    files: BTreeMap<String, FileM>,
    /// sorted (code, level, message, span) of warnings
    warnings: Vec<(String, String, String, String)>,
    errors: Vec<String>,
}

fn run_in_process(sources: &[String], references: &[String]) -> Outcome {
    let options = SliceOptions {
        sources: sources.to_vec(),
        references: references.to_vec(),
        ..Default::default()
    };
    let state = slicec::compile_from_options(&options);
    let files: BTreeMap<String, FileM> = state.files.iter().map(|f| (f.relative_path.clone(), observe_file(f))).collect();
    let diags = diagnostics_of(state, &options);
    let mut warnings: Vec<(String, String, String, String)> = diags
        .iter()
        .filter(|d| d.level != "error")
        .map(|d| (d.code.clone(), d.level.clone(), d.message.clone(), format!("{:?}", d.span)))
        .collect();
    warnings.sort();
    let errors = error_codes(&diags);
    Outcome {
        accepted: errors.is_empty(),
        files,
        warnings,
        errors,
    }
}

const PERMS4: [[usize; 4]; 24] = [
    [0, 1, 2, 3],
    [0, 1, 3, 2],
    [0, 2, 1, 3],
    [0, 2, 3, 1],
    [0, 3, 1, 2],
    [0, 3, 2, 1],
    [1, 0, 2, 3],
    [1, 0, 3, 2],
    [1, 2, 0, 3],
    [1, 2, 3, 0],
    [1, 3, 0, 2],
    [1, 3, 2, 0],
    [2, 0, 1, 3],
    [2, 0, 3, 1],
    [2, 1, 0, 3],
    [2, 1, 3, 0],
    [2, 3, 0, 1],
    [2, 3, 1, 0],
    [3, 0, 1, 2],
    [3, 0, 2, 1],
    [3, 1, 0, 2],
    [3, 1, 2, 0],
    [3, 2, 0, 1],
    [3, 2, 1, 0],
];

fn permutations(n: usize) -> Vec<Vec<usize>> {
    let mut out: Vec<Vec<usize>> = Vec::new();
    if n <= 4 {
        for p in PERMS4 {
            let q: Vec<usize> = p.iter().copied().filter(|x| *x < n).collect();
            if !out.contains(&q) {
                out.push(q);
            }
        }
        return out;
    }
    // more than four files (an injection added one): the 24 arrangements of the first four with the
    // rest placed last, first, and in the middle
    for p in PERMS4 {
        let extra: Vec<usize> = (4..n).collect();
        let mut a: Vec<usize> = p.to_vec();
        a.extend(&extra);
        let mut b: Vec<usize> = extra.clone();
        b.extend(p);
        let mut c: Vec<usize> = p[..2].to_vec();
        c.extend(&extra);
        c.extend(&p[2..]);
        for q in [a, b, c] {
            if !out.contains(&q) {
                out.push(q);
            }
        }
    }
    out
}

fn compare_outcomes(base: &Outcome, other: &Outcome, what: &str, src: &str) -> CaseResult {
    check!(
        base.accepted == other.accepted,
        format!("acceptance-depends-on-{what}"),
        "first arrangement: accepted={} errors {:?}; {what}: accepted={} errors {:?}\n--- files ---\n{src}",
        base.accepted,
        base.errors,
        other.accepted,
        other.errors
    );
    if base.accepted {
        for (path, f) in &base.files {
            match other.files.get(path) {
                Some(g) if g == f => {}
                Some(g) => {
                    let a = Program { files: vec![f.clone()] };
                    let b = Program { files: vec![g.clone()] };
                    let (p, w) = crate::refcheck::first_difference(&a, &b).unwrap_or_default();
                    fail!(
                        format!("content-depends-on-{what}{}", crate::refcheck::class_of_path(&p)),
                        "{path}: at {p}: {w}\n--- files ---\n{src}"
                    );
                }
                None => fail!(format!("file-missing-after-{what}"), "{path} is not compiled in the other arrangement"),
            }
        }
        check!(
            base.warnings == other.warnings,
            format!("warnings-depend-on-{what}"),
            "first arrangement: {:?}\n{what}: {:?}\n--- files ---\n{src}",
            base.warnings,
            other.warnings
        );
    }
    Ok(())
}

fn build_program(cx: &mut CaseCtx, u: &mut Unstructured, cfg: &GenCfg, lay_bytes: &[u8]) -> (Program, Vec<String>) {
    let kind = pick(u, 4);
    let (mut p, labels) = gen_program(u, cfg);
    for l in labels {
        cx.label(l);
    }
    if kind == 3 {
        // one injected error
        let w = pick(u, CATALOGUE.len());
        if inject(&mut p, w, u) {
            cx.label("with-injected-error");
        }
    }
    p.fill_effective_values();
    // real file names (position independent)
    for (i, f) in p.files.iter_mut().enumerate() {
        f.path = format!("file{}.slice", (b'a' + i as u8) as char);
    }
    let (texts, _) = crate::c02::render_layout(&p, lay_bytes, 0);
    (p, texts)
}

fn in_process_case(cx: &mut CaseCtx, input: Input, cfg: &GenCfg) -> CaseResult {
    let (lay_bytes, prog_bytes) = split_input(input.bytes());
    let mut u = Unstructured::new(prog_bytes);
    let (p, texts) = build_program(cx, &mut u, cfg, lay_bytes);
    cx.set_key(&p);
    let n = p.files.len();
    let cross = cx.labels.iter().any(|l| l == "cross-module-ref") || n >= 2;
    cx.nontrivial = n >= 2 && cross;
    let dir = CaseDir::new(&cx.workdir, cx.shard, cx.case_no);
    let names: Vec<String> = p.files.iter().map(|f| f.path.clone()).collect();
    for (name, t) in names.iter().zip(&texts) {
        dir.write(name, t.as_bytes());
    }
    std::env::set_current_dir(&dir.path).expect("chdir");
    let src = names.iter().zip(&texts).map(|(n, t)| format!("--- {n} ---\n{t}")).collect::<Vec<_>>().join("\n");
    cx.sample_with(|| json!({"files": names.iter().zip(&texts).map(|(n, t)| json!({"name": n, "text": t})).collect::<Vec<_>>()}));
    let base = run_in_process(&names, &[]);
    cx.label(if base.accepted { "accepted" } else { "rejected" });
    cx.label_if(!base.warnings.is_empty() && base.accepted, "accepted-with-warnings");
    cx.label_if(n == 4, "four-files");
    // (1) the same arrangement again
    let again = run_in_process(&names, &[]);
    compare_outcomes(&base, &again, "repetition", &src)?;
    // (2) every permutation
    for perm in permutations(n).into_iter().skip(1) {
        let order: Vec<String> = perm.iter().map(|i| names[*i].clone()).collect();
        let o = run_in_process(&order, &[]);
        compare_outcomes(&base, &o, "file-order", &src)?;
    }
    // (3) every source / reference assignment with >= 1 source (and all-references too)
    for mask in 0..(1u32 << n.min(5)) {
        let s: Vec<String> = (0..n).filter(|i| mask >> i & 1 == 0).map(|i| names[i].clone()).collect();
        let r: Vec<String> = (0..n).filter(|i| mask >> i & 1 == 1).map(|i| names[i].clone()).collect();
        if r.is_empty() {
            continue;
        }
        let o = run_in_process(&s, &r);
        compare_outcomes(&base, &o, "source-reference-assignment", &src)?;
        cx.label("reference-assignment-tried");
    }
    // (4) one file listed twice: next to itself, or with the other files in between
    if n >= 2 && n <= 4 {
        let k = pick(&mut u, n);
        let rest: Vec<String> = (0..n).filter(|i| *i != k).map(|i| names[i].clone()).collect();
        let twice_adjacent: Vec<String> = [vec![names[k].clone(), names[k].clone()], rest.clone()].concat();
        let twice_apart: Vec<String> = [vec![names[k].clone()], rest.clone(), vec![names[k].clone()]].concat();
        let twice_last: Vec<String> = [rest, vec![names[k].clone(), names[k].clone()]].concat();
        let b2 = run_in_process(&twice_adjacent, &[]);
        for order in [twice_apart, twice_last] {
            let o = run_in_process(&order, &[]);
            compare_outcomes(&b2, &o, "file-order-with-a-file-listed-twice", &src)?;
        }
        cx.label("file-listed-twice");
    }
    Ok(())
}

/// Name collisions: the same definition in two files; a definition vs a nested module of another
/// file; with and without a use of the colliding name.
fn collision_case(cx: &mut CaseCtx, input: Input) -> CaseResult {
    let idx = input.index();
    let template = idx % 21;
    let with_use = (idx / 21) % 2 == 1;
    let files: Vec<(&str, String)> = match template {
        0 => vec![("a.slice", "module A\nstruct X {}\n".into()), ("b.slice", "module A\ncustom X\n".into())],
        1 => vec![
            ("a.slice", "module A::B\nstruct Inner {}\n".into()),
            ("b.slice", format!("module A\nstruct B {{}}\n{}", if with_use { "struct User { b: B }\n" } else { "" })),
        ],
        2 => vec![
            ("a.slice", "module A::B::C\ncustom Deep\n".into()),
            ("b.slice", format!("module A::B\nenum C {{ V }}\n{}", if with_use { "typealias T = C\n" } else { "" })),
            ("c.slice", "module A\nstruct Unrelated {}\n".into()),
        ],
        3 => vec![
            ("a.slice", "module A\ninterface I { op() }\n".into()),
            ("b.slice", "module A\ninterface I { op() }\n".into()),
            ("c.slice", format!("module Z\n{}", if with_use { "interface J : A::I {}\n" } else { "custom K\n" })),
        ],
        4 => vec![
            ("a.slice", "module M\ntypealias T = int32\n".into()),
            ("b.slice", "module M\ntypealias T = string\n".into()),
            ("c.slice", format!("module M\n{}", if with_use { "struct S { t: T }\n" } else { "struct S {}\n" })),
        ],
        5 => vec![
            ("a.slice", "module A::B\nstruct S {}\n".into()),
            ("b.slice", format!("module A\ncustom B\n{}", if with_use { "struct Holder { x: Sequence<B> }\n" } else { "" })),
        ],
        // preprocessor symbols are per file: a file that defines (or undefines) a symbol must not
        // change what another file selects, in any order
        6 => vec![
            ("a.slice", "#define FEATURE\nmodule M\nstruct A {}\n".into()),
            ("b.slice", format!("module M\n#if FEATURE\nstruct B {{}}\n#endif\nstruct C {{}}\n{}", if with_use { "#if !FEATURE\nstruct D {}\n#endif\n" } else { "" })),
            ("c.slice", "module M\n#if FEATURE\ncustom E\n#else\ncustom F\n#endif\n".into()),
        ],
        7 => vec![
            ("a.slice", "module M\n#define X\n#if X\nstruct Dup {}\n#endif\n".into()),
            ("b.slice", format!("module M\n#if X\n{}\n#endif\nstruct Other {{}}\n", if with_use { "struct Dup {}" } else { "custom Dup" })),
        ],
        // a containment cycle in one file, used from another: rejected in every order
        8 => vec![
            ("user.slice", "module M\nstruct Envelope { n: Node }\n".into()),
            ("cycle.slice", format!("module M\nstruct Node {{ l: Link }}\nstruct Link {{ n: {} }}\n", if with_use { "Sequence<Node>" } else { "Node?" })),
            ("leaf.slice", "module M\nstruct Leaf { e: Envelope? }\n".into()),
        ],
        // a member with the scoped name of a module of another file (F-15b): with a doc link whose
        // target is that name, a warning came and went with the file order
        10 => vec![
            ("a.slice", format!("module M\nenum E {{ A }}\n{}struct S {{}}\n", if with_use { "/// See {@link E::A}.\n" } else { "" })),
            ("b.slice", "module M::E::A\nstruct X {}\n".into()),
        ],
        11 => vec![
            ("a.slice", "module M::S::f\ncustom Deep\n".into()),
            ("b.slice", format!("module M\nstruct S {{ f: int32 }}\n{}custom C\n", if with_use { "/// @see S::f\n" } else { "" })),
            ("c.slice", "module M\nstruct Unrelated {}\n".into()),
        ],
        12 => vec![
            ("a.slice", format!("module M\ninterface I {{\n    {}op(p: bool)\n}}\n", if with_use { "/// {@link I::op} again\n    " } else { "" })),
            ("b.slice", "module M::I::op\nstruct X {}\n".into()),
        ],
        13 => vec![
            ("a.slice", "module M\ninterface I { op(p: bool) -> (a: int32, b: int32) }\n".into()),
            ("b.slice", format!("module M::I::op::{}\nstruct X {{}}\n", if with_use { "p" } else { "b" })),
        ],
        // a definition named like an *enclosing* scope of a deeper module of another file (`A::B` next
        // to `module A::B::C`): legal, and a reference to it binds to the definition in every order
        14 => vec![
            ("a.slice", "module A::B::C\ncustom Deep\n".into()),
            ("b.slice", format!("module A\nstruct B {{}}\n{}", if with_use { "struct User { b: B, s: Sequence<A::B> }\n" } else { "" })),
        ],
        15 => vec![
            ("a.slice", format!("module A\ninterface B {{}}\n{}", if with_use { "interface D : B {}\n" } else { "" })),
            ("b.slice", "module A::B::C::D\nstruct Deep {}\n".into()),
            ("c.slice", "module A::B::C\nstruct Mid { d: D::Deep }\n".into()),
        ],
        // tag-only doc comments whose links must be resolved from their own element, whatever was
        // parsed before them
        16 => vec![
            ("a.slice", "module M1\n/// Overview of the first helper.\nstruct Helper {}\n/// @see Helper\nstruct UserOne {}\n".into()),
            ("b.slice", format!("module M2\nstruct Helper {{}}\n/// @see Helper\nstruct UserTwo {{}}\n{}", if with_use { "/// Overview {@link Helper}.\nstruct Third {}\n" } else { "" })),
            ("c.slice", "module M3\n/// Has an overview.\nstruct Other {}\n/// @see M1::Helper\ncustom Last\n".into()),
        ],
        // a module declared by several files: every declaration carries its own attributes, an
        // illegal one on any of them is an error wherever that file stands
        17 => vec![
            ("a.slice", "module Shared\nstruct A {}\n".into()),
            ("b.slice", format!("{} module Shared\nstruct B {{}}\n", if with_use { "[deprecated]" } else { "[oneway]" })),
            ("c.slice", "module Shared\nstruct C { a: A, b: B }\n".into()),
        ],
        18 => vec![
            ("a.slice", "[cs::fine] module Shared::Inner\nstruct A {}\n".into()),
            ("b.slice", "module Shared::Inner\ncustom B\n".into()),
            ("c.slice", format!("[allow(Deprecated)] {} module Shared::Inner\nstruct C {{}}\n", if with_use { "[allow(All)]" } else { "" })),
        ],
        // the same spelling of a type in two modules, legal in one and illegal in the other
        19 => vec![
            ("a.slice", "module M1\ncompact struct Key { a: int32 }\nstruct U1 { d: Dictionary<Key, string> }\n".into()),
            ("b.slice", format!("module M2\nstruct Key {{ a: int32 }}\nstruct U2 {{ d: {} }}\n", if with_use { "Dictionary<Key, string>" } else { "Sequence<Dictionary<Key, string>>" })),
        ],
        20 => vec![
            ("a.slice", "module M1\n[deprecated] struct Old {}\nstruct A1 { o: Old }\n".into()),
            ("b.slice", format!("module M1\nstruct A2 {{ o: Old, p: Sequence<Old> }}\n{}", if with_use { "[allow(Deprecated)] struct A3 { o: Old }\n" } else { "" })),
            ("c.slice", "module M2\nstruct B1 { o: M1::Old }\n".into()),
        ],
        _ => vec![
            ("a.slice", "module M\nenum Outer { A(x: Inner) }\nstruct Before { o: Outer }\n".into()),
            ("b.slice", format!("module M\nstruct Inner {{ back: {} }}\n", if with_use { "Dictionary<int32, Outer>" } else { "Outer?" })),
            ("c.slice", "module M\nstruct After { i: Inner, b: Before }\n".into()),
        ],
    };
    cx.nontrivial = true;
    cx.label(format!("collision-template-{template}"));
    cx.label_if(matches!(template, 1 | 2 | 5), "definition-vs-nested-module");
    cx.label_if(matches!(template, 6 | 7), "preprocessor-symbols-across-files");
    cx.label_if(matches!(template, 8 | 9), "cycle-across-files");
    cx.label_if(matches!(template, 10..=13), "member-vs-module");
    cx.label_if(matches!(template, 14 | 15), "definition-vs-enclosing-scope-of-a-module");
    cx.label_if(matches!(template, 17 | 18), "module-declared-by-several-files-with-attributes");
    let dir = CaseDir::new(&cx.workdir, cx.shard, cx.case_no);
    for (n, t) in &files {
        dir.write(n, t.as_bytes());
    }
    std::env::set_current_dir(&dir.path).expect("chdir");
    let names: Vec<String> = files.iter().map(|f| f.0.to_owned()).collect();
    let src = files.iter().map(|(n, t)| format!("--- {n} ---\n{t}")).collect::<Vec<_>>().join("\n");
    cx.sample_with(|| json!({"files": files.iter().map(|(n, t)| json!({"name": n, "text": t})).collect::<Vec<_>>()}));
    let base = run_in_process(&names, &[]);
    for perm in permutations(names.len()).into_iter().skip(1) {
        let order: Vec<String> = perm.iter().map(|i| names[*i].clone()).collect();
        let o = run_in_process(&order, &[]);
        if base.accepted != o.accepted && matches!(template, 1 | 2 | 5) && cx.tolerate_known("F-15") {
            return Ok(());
        }
        compare_outcomes(&base, &o, "file-order", &src)?;
    }
    let n = names.len();
    for mask in 1..(1u32 << n) {
        let s_: Vec<String> = (0..n).filter(|i| mask >> i & 1 == 0).map(|i| names[i].clone()).collect();
        let r_: Vec<String> = (0..n).filter(|i| mask >> i & 1 == 1).map(|i| names[i].clone()).collect();
        let o = run_in_process(&s_, &r_);
        if base.accepted != o.accepted && matches!(template, 1 | 2 | 5) && cx.tolerate_known("F-15") {
            return Ok(());
        }
        compare_outcomes(&base, &o, "source-reference-assignment", &src)?;
    }
    Ok(())
}

// ---- the same erroneous input again and again: diagnostics in the same order -------------------------

const REPEAT_TEMPLATES: [&str; 6] = [
    "module M\ninterface I {\n    [compress(Args)] [oneway] [slicedFormat(Args)] [deprecated] [compress(Return)] [oneway] [slicedFormat(Return)] [deprecated(\"x\")] op()\n}\n",
    "module M\nstruct S {\n    tag(1) a: int32?\n    tag(1) b: int32?\n    tag(2) c: bool?\n    tag(2) d: bool?\n    tag(3) e: string\n    tag(4) f: string\n}\n",
    "module M\nenum E : uint8 { A = 1, B = 1, C = 300, D = 2, F = 2, G = 400, H = -1 }\n",
    "module M\nstruct S { a: Nope1, b: Nope2, c: Sequence<Nope3>, d: Dictionary<Nope4, Nope5> }\ninterface I : Nope6, Nope7 {}\n",
    "module M\n[bogus1] [bogus2(x)] [cs::fine] [bogus3] [allow(Nope)] [allow(Nada)] struct S {}\n",
    "module M\nstruct S {}\ncustom S\nenum S { A }\nstruct T {}\ntypealias T = bool\ninterface T {}\n",
];

/// "Compiling the same inputs with the same options twice gives byte-identical diagnostics": several
/// errors of one kind on one element, twelve compilations in this process (every hash map instance
/// of the compiler gets fresh keys) - the recorded list must come out the same every time.
fn repetition_case(cx: &mut CaseCtx, input: Input) -> CaseResult {
    let text = REPEAT_TEMPLATES[input.index() as usize % REPEAT_TEMPLATES.len()].to_owned();
    cx.nontrivial = true;
    cx.label("several-errors-repeated");
    cx.sample_with(|| json!({"files": [text]}));
    let list = |t: &str| -> Vec<(String, String, Option<((usize, usize), (usize, usize), String)>)> {
        let state = crate::compile::compile_strings(&[t.to_owned()], None);
        crate::compile::diagnostics_of(state, &Default::default()).into_iter().map(|d| (d.code, d.message, d.span)).collect()
    };
    let first = list(&text);
    check!(first.len() >= 2, "repetition/template-has-too-few-diagnostics", "{first:?}\n{text}");
    for k in 1..12 {
        let again = list(&text);
        check!(
            again == first,
            "not-reproducible/diagnostic-order",
            "compilation {k} of the same text reports\n  {:?}\nthe first one reported\n  {:?}\n--- source ---\n{text}",
            again.iter().map(|d| (&d.0, &d.1)).collect::<Vec<_>>(),
            first.iter().map(|d| (&d.0, &d.1)).collect::<Vec<_>>()
        );
    }
    Ok(())
}

fn binary_case(cx: &mut CaseCtx, input: Input, cfg: &GenCfg) -> CaseResult {
    let (lay_bytes, prog_bytes) = split_input(input.bytes());
    let mut u = Unstructured::new(prog_bytes);
    let (p, texts) = build_program(cx, &mut u, cfg, lay_bytes);
    cx.set_key(&p);
    let mut names: Vec<String> = p.files.iter().map(|f| f.path.clone()).collect();
    let mut texts = texts;
    // now and then one more file that declares no module (empty, comment only, or entirely
    // excluded by the preprocessor) at a drawn position: it must not affect what is said about the others
    if pick(&mut u, 3) == 0 {
        const BLANK: [&str; 3] = ["", "// nothing here\n", "#if NOPE\nmodule Hidden\nstruct Y {}\n#endif\n"];
        let at = pick(&mut u, names.len() + 1);
        names.insert(at, "blank.slice".to_owned());
        texts.insert(at, BLANK[pick(&mut u, 3)].to_owned());
        cx.label("binary-with-module-less-file");
        cx.label_if(at + 1 < names.len(), "binary-module-less-file-not-last");
    }
    let n = names.len();
    // now and then the second file lives in a sub-directory under the first one's name: one path ends in the other
    if n >= 2 && pick(&mut u, 4) == 3 {
        names[1] = format!("nested/{}", names[0]);
        cx.label("binary-one-path-ends-in-another");
    }
    cx.nontrivial = n >= 2;
    let json_mode = pick(&mut u, 2) == 1;
    let run = |cx: &CaseCtx, salt: u64, order: &[usize], refs: u32| -> Result<(proc::RunResult, Option<Vec<u8>>), Fail> {
        let dir = CaseDir::new(&cx.workdir, cx.shard, cx.case_no + salt * 1_000_000);
        for (name, t) in names.iter().zip(&texts) {
            dir.write(name, t.as_bytes());
        }
        let gen = dir.install_generator("gen", "");
        let mut argv: Vec<std::ffi::OsString> = Vec::new();
        for i in order {
            if refs >> i & 1 == 1 {
                argv.push(os("-R"));
            }
            argv.push(os(&names[*i]));
        }
        argv.push(os("--generator=./gen,k=v,zeta=1,alpha=2,m=3,beta=4"));
        if json_mode {
            argv.push(os("--diagnostic-format=json"));
        }
        let r = proc::run_slicec(&dir.path, &argv, &[], Duration::from_secs(30));
        if let Some(c) = r.crashed() {
            return Err(Fail::new(format!("slicec-crash/{c}"), r.stderr_text()));
        }
        let stdin = dir.generator_stdin(&gen);
        Ok((r, stdin))
    };
    let identity: Vec<usize> = (0..n).collect();
    cx.sample_with(|| json!({"files": names.iter().zip(&texts).map(|(n, t)| json!({"name": n, "text": t})).collect::<Vec<_>>()}));
    // (1) reproducibility: the same argv in two fresh processes
    let (a, a_req) = run(cx, 1, &identity, 0)?;
    let (b, b_req) = run(cx, 2, &identity, 0)?;
    check!(
        a.stdout == b.stdout && a.stderr == b.stderr && a.code == b.code,
        "not-reproducible/streams",
        "two runs of the same command line differ:\n--- first stderr ---\n{}\n--- second stderr ---\n{}",
        a.stderr_text(),
        b.stderr_text()
    );
    check!(a_req == b_req, "not-reproducible/request", "two runs of the same command line send different generator requests");
    cx.label("reproducibility-compared");
    // (2) one permutation and one reference assignment through the binary
    let perms = permutations(n);
    let perm = perms[pick(&mut u, perms.len())].clone();
    // (any assignment but the identity's: also the one in which every file is a reference and none is a source)
    let refs = 1 + pick(&mut u, (1usize << n) - 1) as u32;
    cx.label_if(refs == (1u32 << n) - 1, "binary-every-file-a-reference");
    let (c, c_req) = run(cx, 3, &perm, refs)?;
    check!(
        (a.code == Some(0)) == (c.code == Some(0)),
        "binary/acceptance-depends-on-arrangement",
        "identity order: exit {:?}; order {perm:?} refs {refs:#b}: exit {:?}\n{}\n{}",
        a.code,
        c.code,
        a.stderr_text(),
        c.stderr_text()
    );
    // the warnings that are shown: the same multiset in both arrangements (accepted programs)
    if a.code == Some(0) && c.code == Some(0) {
        let shown = |r: &proc::RunResult| -> Vec<String> {
            let mut v: Vec<String> = if json_mode {
                r.stderr_text()
                    .lines()
                    .filter_map(|l| serde_json::from_str::<serde_json::Value>(l).ok())
                    .filter(|j| j["severity"] == "warning")
                    .map(|j| format!("{} {}", j["error_code"], j["message"]))
                    .collect()
            } else {
                // whole blocks: header, location, quoted source lines, notes
                let mut blocks: Vec<String> = Vec::new();
                let mut keep = false;
                for l in r.stderr_text().lines() {
                    if l.starts_with("warning [") || l.starts_with("error [") {
                        keep = l.starts_with("warning [");
                        if keep {
                            blocks.push(String::new());
                        }
                    }
                    if keep {
                        let b = blocks.last_mut().unwrap();
                        b.push_str(l.trim_end());
                        b.push('\n');
                    }
                }
                blocks.into_iter().map(|b| b.trim_end().to_owned()).collect()
            };
            v.sort();
            v
        };
        let (wa, wc) = (shown(&a), shown(&c));
        check!(
            wa == wc,
            "binary/warnings-shown-depend-on-arrangement",
            "identity order shows {} warnings, order {perm:?} refs {refs:#b} shows {}\n--- identity ---\n{}\n--- other ---\n{}",
            wa.len(),
            wc.len(),
            a.stderr_text(),
            c.stderr_text()
        );
        cx.label_if(!wa.is_empty(), "binary-warnings-compared");
    }
    if a.code == Some(0) && c.code == Some(0) {
        check!(
            a_req.is_some() == c_req.is_some(),
            "binary/request-sent-depends-on-arrangement",
            "identity arrangement: request {}; order {perm:?} refs {refs:#b}: request {}",
            if a_req.is_some() { "sent" } else { "not sent" },
            if c_req.is_some() { "sent" } else { "not sent" }
        );
    }
    if let (Some(ra), Some(rc)) = (&a_req, &c_req) {
        let (da, _) = decode_and_interpret(ra).map_err(|e| Fail::new("binary/undecodable-request", format!("{e:?}")))?;
        let (dc, _) = decode_and_interpret(rc).map_err(|e| Fail::new("binary/undecodable-request", format!("{e:?}")))?;
        let map = |d: &crate::request::DecRequest| -> BTreeMap<String, (FileM, String)> {
            d.sources
                .iter()
                .chain(d.references.iter())
                .map(|f| (f.file.path.clone(), (f.file.clone(), format!("{:?}", f.docs))))
                .collect()
        };
        check!(
            map(&da) == map(&dc),
            "binary/request-content-depends-on-arrangement",
            "the decoded per-file content differs between the identity arrangement and order {perm:?} refs {refs:#b}"
        );
        cx.label("request-content-compared");
    }
    Ok(())
}

impl Check for C15 {
    fn id(&self) -> &'static str {
        "C15"
    }
    fn rule(&self) -> String {
        "families: in-process = proptest choice sequences -> multi-file programs (1..4 files, cross-file and cross-module references, aliases, inheritance, re-opened modules; valid, with warnings, or with one injected error) written to real files and compiled with compile_from_options in every permutation of the files and every source/reference assignment: acceptance, per-path observed content and the multiset of warnings (code, level, message, span) must not change, also when one file is listed twice (adjacent or apart); collisions = 42 templates (same definition in two files, definition vs nested module of another file, enumerator / field / operation / parameter / return member vs module of another file, preprocessor symbols defined in one file and tested in another, containment cycles spread over files and used from outside; each with and without a variation) in every order and every source/reference assignment; repetition = six texts with several errors of one kind on one element, compiled twelve times in one process (and by sixteen processes): the recorded list is the same every time; binary = the same argv (one generator with five arguments; now and then an extra module-less file at a drawn position) twice in fresh processes (byte-identical stdout, stderr, exit status, generator request) plus one random permutation and reference assignment, incl. every file a reference (acceptance, whether a request is sent, the multiset of warnings shown, per-path decoded request content). Non-trivial = >= 2 files".into()
    }
    fn assumptions(&self) -> Vec<String> {
        vec!["only the order of files and of reports may change; error diagnostics of rejected programs are not compared across arrangements (only that they are rejected)".into()]
    }
    fn essential(&self, _tier: Tier) -> Vec<&'static str> {
        vec![
            "accepted",
            "rejected",
            "accepted-with-warnings",
            "four-files",
            "reference-assignment-tried",
            "cross-module-ref",
            "with-injected-error",
            "definition-vs-nested-module",
            "preprocessor-symbols-across-files",
            "cycle-across-files",
            "member-vs-module",
            "reproducibility-compared",
            "request-content-compared",
            "binary-module-less-file-not-last",
            "binary-every-file-a-reference",
        ]
    }
    fn needs_binary(&self) -> bool {
        true
    }
    fn fuzz_families(&self, _tier: Tier) -> Vec<(&'static str, u64)> {
        // libFuzzer runs per job (16 jobs), sized from the measured speed of the instrumented build
        vec![("in-process", 6000)]
    }
    fn families(&self, tier: Tier) -> Vec<Family<'_>> {
        let cfg = GenCfg {
            max_files: 4,
            max_defs: 8,
            deprecated: true,
            doc_chance: 60,
            ..GenCfg::default()
        };
        let cfg2 = cfg.clone();
        vec![
            Family::enumerate("collisions", 42, 1, collision_case),
            Family::enumerate("repetition", 6 * 16, 1, repetition_case),
            Family::bytes("in-process", 700, tier.pick(600, 8_000), move |cx, i| in_process_case(cx, i, &cfg)),
            Family::bytes("binary", 700, tier.pick(60, 1_000), move |cx, i| binary_case(cx, i, &cfg2)),
        ]
    }
}
