//! Reference rule checker for C04/C05: a table-driven, independent implementation of the
//! complete catalogue of language rules over the abstract program.  Returns the set of violated
//! (sub-)rules, each with its admissible diagnostic code.

use crate::model::*;
use crate::refcheck::{join, EKind, Resolver};
use std::collections::{BTreeMap, BTreeSet, HashMap};

#[derive(Clone, Debug, PartialEq, Eq, PartialOrd, Ord)]
pub struct Violation {
    pub rule: &'static str,
    pub code: &'static str,
    pub at: String,
}

#[derive(Default, Debug)]
pub struct Report {
    pub violations: Vec<Violation>,
    /// containment analysis (only when every reference resolves)
    pub on_cycle: BTreeSet<String>,
    pub resolved: bool,
}

impl Report {
    pub fn codes(&self) -> BTreeSet<&'static str> {
        self.violations.iter().map(|v| v.code).collect()
    }
    pub fn rules(&self) -> BTreeSet<&'static str> {
        self.violations.iter().map(|v| v.rule).collect()
    }
    pub fn well_formed(&self) -> bool {
        self.violations.is_empty()
    }
}

const LINT_NAMES: [&str; 5] = ["All", "Deprecated", "MalformedDocComment", "IncorrectDocComment", "BrokenDocLink"];
const KNOWN_ATTRS: [&str; 5] = ["allow", "compress", "deprecated", "oneway", "slicedFormat"];

struct Ck<'p> {
    p: &'p Program,
    out: Vec<Violation>,
}

impl<'p> Ck<'p> {
    fn v(&mut self, rule: &'static str, code: &'static str, at: &str) {
        self.out.push(Violation {
            rule,
            code,
            at: at.to_owned(),
        });
    }

    // ---- attributes ---------------------------------------------------------------------

    /// target: "file","module","struct","field","interface","operation","operation-noreturn",
    /// "parameter","enum","enumerator","custom","alias","type"
    fn attrs(&mut self, attrs: &[AttrM], target: &str, at: &str) {
        let mut seen: BTreeSet<&str> = BTreeSet::new();
        for (n, a) in attrs.iter().enumerate() {
            let here = format!("{at}/attr{n}");
            let d = a.directive.as_str();
            if !d.contains("::") {
                if !KNOWN_ATTRS.contains(&d) {
                    self.v("R-ATTR-UNKNOWN", "E024", &here);
                    continue;
                }
            } else {
                continue; // foreign-prefixed: carried verbatim, no rule
            }
            // argument shape
            match d {
                "allow" => {
                    if a.args.is_empty() {
                        self.v("R-ATTR-ARG-COUNT", "E028", &here);
                    }
                    for x in &a.args {
                        if !LINT_NAMES.contains(&x.as_str()) {
                            self.v("R-ATTR-ARG-VALUE", "E027", &here);
                        }
                    }
                }
                "deprecated" => {
                    if a.args.len() > 1 {
                        self.v("R-ATTR-ARG-COUNT", "E028", &here);
                    }
                }
                "oneway" => {
                    if !a.args.is_empty() {
                        self.v("R-ATTR-ARG-COUNT", "E028", &here);
                    }
                }
                "compress" | "slicedFormat" => {
                    if a.args.is_empty() {
                        self.v("R-ATTR-ARG-COUNT", "E028", &here);
                    }
                    for x in &a.args {
                        if x != "Args" && x != "Return" {
                            self.v("R-ATTR-ARG-VALUE", "E027", &here);
                        }
                    }
                }
                _ => {}
            }
            // target
            let legal = match d {
                "allow" => !matches!(target, "module" | "type"),
                "deprecated" => !matches!(target, "module" | "type" | "file" | "parameter"),
                "compress" | "slicedFormat" => target.starts_with("operation"),
                "oneway" => target == "operation-noreturn",
                _ => true,
            };
            if !legal {
                self.v("R-ATTR-TARGET", "E023", &here);
            }
            // repetition
            if d != "allow" && !seen.insert(d) {
                self.v("R-ATTR-REPEATED", "E026", &here);
            }
        }
    }

    fn type_attrs(&mut self, t: &TypeM, at: &str) {
        self.attrs(&t.attrs, "type", at);
        match &t.kind {
            TypeK::Seq(e) => self.type_attrs(e, &format!("{at}/0")),
            TypeK::Dict(k, v) => {
                self.type_attrs(k, &format!("{at}/0"));
                self.type_attrs(v, &format!("{at}/1"));
            }
            TypeK::Result(a, b) => {
                self.type_attrs(a, &format!("{at}/0"));
                self.type_attrs(b, &format!("{at}/1"));
            }
            _ => {}
        }
    }

    // ---- members ------------------------------------------------------------------------

    fn members(&mut self, list: &[(Option<i128>, bool, String)], compact_kind: Option<&'static str>, at: &str) {
        // list: (tag, type is optional, path)
        let mut groups: BTreeMap<i128, Vec<String>> = BTreeMap::new();
        for (tag, optional, path) in list {
            if let Some(t) = tag {
                if *t < 0 || *t > (1i128 << 31) - 1 {
                    self.v("R-TAG-RANGE", "E021", path);
                }
                if !optional {
                    self.v("R-TAG-OPTIONAL", "E016", path);
                }
                if compact_kind.is_some() {
                    self.v("R-COMPACT-TAG", "E015", path);
                }
                // uniqueness is judged on the value the compiler keeps (the literal as u32); for
                // in-range tags that is the written value
                let key = (*t as u32) as i128;
                groups.entry(key).or_default().push(path.clone());
            }
        }
        // every member of a group of equal tags is an offending element (which one a diagnostic
        // names is the implementation's choice)
        for (_k, g) in groups {
            if g.len() > 1 {
                for path in g {
                    self.v("R-TAG-UNIQUE", "E012", &path);
                }
            }
        }
        let _ = at;
    }

    fn unique_names(&mut self, names: &[(String, String)], rule: &'static str) {
        let mut groups: BTreeMap<&str, Vec<&str>> = BTreeMap::new();
        for (n, at) in names {
            groups.entry(n.as_str()).or_default().push(at.as_str());
        }
        for (_n, g) in groups {
            if g.len() > 1 {
                for at in g {
                    self.v(rule, "E010", at);
                }
            }
        }
    }

    fn streams(&mut self, list: &[(bool, String)]) {
        let n = list.len();
        let streamed: Vec<&(bool, String)> = list.iter().filter(|x| x.0).collect();
        for (i, (s, at)) in list.iter().enumerate() {
            if *s && i + 1 != n {
                self.v("R-STREAM-LAST", "E013", at);
            }
        }
        if streamed.len() > 1 {
            for (_, at) in &streamed {
                self.v("R-STREAM-SINGLE", "E029", at);
            }
        }
    }
}

/// Resolved view used by the type-dependent rules.
struct Types<'p> {
    p: &'p Program,
    /// scoped name -> (file, def)
    defs: HashMap<String, (usize, usize)>,
}

impl<'p> Types<'p> {
    fn def(&self, scoped: &str) -> Option<&'p DefM> {
        self.defs.get(scoped).map(|(f, d)| &self.p.files[*f].defs[*d])
    }
}

/// Key legality on a canonical type; returns the violated sub-rule if illegal.
fn key_violation(t: &TypeM, types: &Types, depth: usize) -> Option<(&'static str, &'static str)> {
    if t.optional {
        return Some(("R-KEY-OPTIONAL", "E003"));
    }
    match &t.kind {
        TypeK::Prim(p) => {
            if is_integral(p) || p == "bool" || p == "string" {
                None
            } else {
                Some(("R-KEY-TYPE", "E005"))
            }
        }
        TypeK::Seq(_) | TypeK::Dict(..) | TypeK::Result(..) => Some(("R-KEY-TYPE", "E005")),
        TypeK::Named(n) => {
            let (kind, scoped) = n.split_once(' ').unwrap_or(("", n));
            match kind {
                "@custom" => None,
                "@enum" => match types.def(scoped) {
                    Some(DefM::Enum(e)) if e.underlying.is_some() => None,
                    _ => Some(("R-KEY-TYPE", "E005")),
                },
                "@struct" => match types.def(scoped) {
                    Some(DefM::Struct(s)) => {
                        if !s.compact {
                            return Some(("R-KEY-STRUCT-COMPACT", "E004"));
                        }
                        if depth > 16 {
                            return None; // cyclic compact structs are rejected by the cycle rule
                        }
                        // fields must themselves be legal keys (their types resolved in the struct's module)
                        let (fi, _) = types.defs[scoped];
                        let scope = types.p.files[fi].module.as_ref().map(|m| m.scope()).unwrap_or_default();
                        let mut r = Resolver::new(types.p);
                        for f in &s.fields {
                            let Some(ct) = r.resolve_type(&f.ty, &scope, "") else { continue };
                            if key_violation(&ct, types, depth + 1).is_some() {
                                return Some(("R-KEY-STRUCT-FIELDS", "E006"));
                            }
                        }
                        None
                    }
                    _ => Some(("R-KEY-TYPE", "E005")),
                },
                _ => Some(("R-KEY-TYPE", "E005")),
            }
        }
    }
}

/// Applies the key rule to every dictionary in a canonical type expression (as the compiler does
/// wherever a dictionary is written and wherever an alias of one is used).
fn keys_in(t: &TypeM, types: &Types, at: &str, out: &mut Vec<Violation>) {
    match &t.kind {
        TypeK::Dict(k, v) => {
            if let Some((rule, code)) = key_violation(k, types, 0) {
                out.push(Violation {
                    rule,
                    code,
                    at: at.to_owned(),
                });
            }
            keys_in(k, types, &format!("{at}/0"), out);
            keys_in(v, types, &format!("{at}/1"), out);
        }
        TypeK::Seq(e) => keys_in(e, types, &format!("{at}/0"), out),
        TypeK::Result(a, b) => {
            keys_in(a, types, &format!("{at}/0"), out);
            keys_in(b, types, &format!("{at}/1"), out);
        }
        _ => {}
    }
}

/// Struct/enum names a canonical type expression contains (through optional, sequence, dictionary
/// key and value, result success and failure).
fn contained(t: &TypeM, out: &mut Vec<String>) {
    match &t.kind {
        TypeK::Named(n) => {
            if let Some((kind, scoped)) = n.split_once(' ') {
                if kind == "@struct" || kind == "@enum" {
                    out.push(scoped.to_owned());
                }
            }
        }
        TypeK::Seq(e) => contained(e, out),
        TypeK::Dict(k, v) => {
            contained(k, out);
            contained(v, out);
        }
        TypeK::Result(a, b) => {
            contained(a, out);
            contained(b, out);
        }
        TypeK::Prim(_) => {}
    }
}

/// Nodes that lie on a directed cycle (Tarjan SCC; a self-loop counts).
pub fn nodes_on_cycles(edges: &BTreeMap<String, BTreeSet<String>>) -> BTreeSet<String> {
    let nodes: Vec<&String> = edges.keys().collect();
    let idx: HashMap<&String, usize> = nodes.iter().enumerate().map(|(i, n)| (*n, i)).collect();
    let n = nodes.len();
    let adj: Vec<Vec<usize>> = nodes
        .iter()
        .map(|u| edges[*u].iter().filter_map(|v| idx.get(v).copied()).collect())
        .collect();
    // iterative Tarjan
    let mut index = vec![usize::MAX; n];
    let mut low = vec![0usize; n];
    let mut on_stack = vec![false; n];
    let mut stack: Vec<usize> = Vec::new();
    let mut next_index = 0usize;
    let mut result = BTreeSet::new();
    for root in 0..n {
        if index[root] != usize::MAX {
            continue;
        }
        let mut call: Vec<(usize, usize)> = vec![(root, 0)];
        index[root] = next_index;
        low[root] = next_index;
        next_index += 1;
        stack.push(root);
        on_stack[root] = true;
        while let Some(&(v, ci)) = call.last() {
            if ci < adj[v].len() {
                call.last_mut().unwrap().1 += 1;
                let w = adj[v][ci];
                if index[w] == usize::MAX {
                    index[w] = next_index;
                    low[w] = next_index;
                    next_index += 1;
                    stack.push(w);
                    on_stack[w] = true;
                    call.push((w, 0));
                } else if on_stack[w] {
                    low[v] = low[v].min(index[w]);
                }
            } else {
                call.pop();
                if let Some(&(parent, _)) = call.last() {
                    low[parent] = low[parent].min(low[v]);
                }
                if low[v] == index[v] {
                    let mut comp = Vec::new();
                    loop {
                        let w = stack.pop().unwrap();
                        on_stack[w] = false;
                        comp.push(w);
                        if w == v {
                            break;
                        }
                    }
                    let cyclic = comp.len() > 1 || adj[v].contains(&v);
                    if cyclic {
                        for w in comp {
                            result.insert(nodes[w].clone());
                        }
                    }
                }
            }
        }
    }
    result
}

pub fn check_program(p: &Program) -> Report {
    let mut ck = Ck { p, out: Vec::new() };
    let mut report = Report::default();

    // ---- per file / definition: everything that needs no resolution ------------------------
    let mut def_names: BTreeMap<String, Vec<(String, String)>> = BTreeMap::new(); // module scope -> (name, at)
    for (fi, f) in p.files.iter().enumerate() {
        let fp = format!("f{fi}");
        ck.attrs(&f.file_attrs, "file", &fp);
        if f.module.is_none() && !f.defs.is_empty() {
            ck.v("R-MODULE-REQUIRED", "E002", &fp);
        }
        if let Some(m) = &f.module {
            ck.attrs(&m.attrs, "module", &format!("{fp}/module"));
        }
        let scope = f.module.as_ref().map(|m| m.scope()).unwrap_or_default();
        for (di, d) in f.defs.iter().enumerate() {
            let dp = format!("{fp}/d{di}");
            def_names.entry(scope.clone()).or_default().push((d.name().to_owned(), dp.clone()));
            match d {
                DefM::Struct(s) => {
                    ck.attrs(&s.pre.attrs, "struct", &dp);
                    if s.compact && s.fields.is_empty() {
                        ck.v("R-COMPACT-EMPTY", "E018", &dp);
                    }
                    let list: Vec<_> = s
                        .fields
                        .iter()
                        .enumerate()
                        .map(|(k, f)| (f.tag, f.ty.optional, format!("{dp}/m{k}")))
                        .collect();
                    ck.members(&list, if s.compact { Some("struct") } else { None }, &dp);
                    let names: Vec<_> = s.fields.iter().enumerate().map(|(k, f)| (f.name.clone(), format!("{dp}/m{k}"))).collect();
                    ck.unique_names(&names, "R-NAME-FIELD");
                    for (k, fld) in s.fields.iter().enumerate() {
                        ck.attrs(&fld.pre.attrs, "field", &format!("{dp}/m{k}"));
                        ck.type_attrs(&fld.ty, &format!("{dp}/m{k}/type"));
                    }
                }
                DefM::Interface(i) => {
                    ck.attrs(&i.pre.attrs, "interface", &dp);
                    for (b, base) in i.bases.iter().enumerate() {
                        ck.attrs(&base.attrs, "type", &format!("{dp}/base{b}"));
                    }
                    let names: Vec<_> = i.ops.iter().enumerate().map(|(k, o)| (o.name.clone(), format!("{dp}/m{k}"))).collect();
                    ck.unique_names(&names, "R-NAME-OPERATION");
                    for (k, op) in i.ops.iter().enumerate() {
                        let opp = format!("{dp}/m{k}");
                        let target = if matches!(op.ret, RetM::None) { "operation-noreturn" } else { "operation" };
                        ck.attrs(&op.pre.attrs, target, &opp);
                        let plist: Vec<_> = op
                            .params
                            .iter()
                            .enumerate()
                            .map(|(q, x)| (x.tag, x.ty.optional, format!("{opp}/p{q}")))
                            .collect();
                        ck.members(&plist, None, &opp);
                        let pn: Vec<_> = op.params.iter().enumerate().map(|(q, x)| (x.name.clone(), format!("{opp}/p{q}"))).collect();
                        ck.unique_names(&pn, "R-NAME-PARAMETER");
                        let ps: Vec<_> = op.params.iter().enumerate().map(|(q, x)| (x.stream, format!("{opp}/p{q}"))).collect();
                        ck.streams(&ps);
                        for (q, x) in op.params.iter().enumerate() {
                            let pp = format!("{opp}/p{q}");
                            ck.attrs(&x.pre.attrs, "parameter", &pp);
                            if !x.pre.doc.is_empty() {
                                ck.v("R-DOC-PARAMETER", "E002", &pp);
                            }
                            ck.type_attrs(&x.ty, &format!("{pp}/type"));
                        }
                        let rets = op.ret.members();
                        if let RetM::Tuple(v) = &op.ret {
                            if v.len() < 2 {
                                ck.v("R-RETURN-TUPLE", "E014", &opp);
                            }
                            let rn: Vec<_> = v.iter().enumerate().map(|(q, x)| (x.name.clone(), format!("{opp}/r{q}"))).collect();
                            ck.unique_names(&rn, "R-NAME-RETURN");
                        }
                        let rlist: Vec<_> = rets
                            .iter()
                            .enumerate()
                            .map(|(q, x)| (x.tag, x.ty.optional, format!("{opp}/r{q}")))
                            .collect();
                        ck.members(&rlist, None, &opp);
                        let rs: Vec<_> = rets.iter().enumerate().map(|(q, x)| (x.stream, format!("{opp}/r{q}"))).collect();
                        ck.streams(&rs);
                        for (q, x) in rets.iter().enumerate() {
                            let rp = format!("{opp}/r{q}");
                            ck.attrs(&x.pre.attrs, "parameter", &rp);
                            if !x.pre.doc.is_empty() {
                                ck.v("R-DOC-PARAMETER", "E002", &rp);
                            }
                            ck.type_attrs(&x.ty, &format!("{rp}/type"));
                        }
                    }
                }
                DefM::Enum(e) => {
                    ck.attrs(&e.pre.attrs, "enum", &dp);
                    if let Some(u) = &e.underlying {
                        ck.attrs(&u.attrs, "type", &format!("{dp}/underlying"));
                        if u.optional {
                            ck.v("R-UNDERLYING-OPTIONAL", "E007", &dp);
                        }
                    }
                    if !e.unchecked && e.enumerators.is_empty() {
                        ck.v("R-ENUM-EMPTY", "E008", &dp);
                    }
                    if e.compact && e.underlying.is_some() {
                        ck.v("R-COMPACT-ENUM", "E036", &dp);
                    }
                    if e.compact && e.unchecked {
                        ck.v("R-COMPACT-ENUM", "E036", &dp);
                    }
                    let names: Vec<_> = e.enumerators.iter().enumerate().map(|(k, x)| (x.name.clone(), format!("{dp}/m{k}"))).collect();
                    ck.unique_names(&names, "R-NAME-ENUMERATOR");
                    let mut seen_values: BTreeMap<i128, Vec<String>> = BTreeMap::new();
                    let mut prev: Option<i128> = None;
                    for (k, en) in e.enumerators.iter().enumerate() {
                        let ep = format!("{dp}/m{k}");
                        ck.attrs(&en.pre.attrs, "enumerator", &ep);
                        let value = match en.value {
                            Some(v) => v,
                            None => prev.map_or(0, |x| x.wrapping_add(1)),
                        };
                        prev = Some(value);
                        seen_values.entry(value).or_default().push(ep.clone());
                        if e.underlying.is_none() && (value < 0 || value > (1i128 << 31) - 1) {
                            ck.v("R-ENUMERATOR-RANGE", "E020", &ep);
                        }
                        if e.underlying.is_some() && en.fields.is_some() {
                            // `A()` (an empty field list) is a don't-care of the statement; flagged as
                            // its own sub-rule so that the caller can keep it out of the comparison
                            if en.fields.as_ref().unwrap().is_empty() {
                                ck.v("R-UNDERLYING-EMPTY-FIELD-LIST", "E035", &ep);
                            } else {
                                ck.v("R-UNDERLYING-FIELDS", "E035", &ep);
                            }
                        }
                        if let Some(fs) = &en.fields {
                            let list: Vec<_> = fs
                                .iter()
                                .enumerate()
                                .map(|(q, f)| (f.tag, f.ty.optional, format!("{ep}/m{q}")))
                                .collect();
                            ck.members(&list, if e.compact { Some("enum") } else { None }, &ep);
                            let fnames: Vec<_> = fs.iter().enumerate().map(|(q, f)| (f.name.clone(), format!("{ep}/m{q}"))).collect();
                            ck.unique_names(&fnames, "R-NAME-ENUMERATOR-FIELD");
                            for (q, fld) in fs.iter().enumerate() {
                                ck.attrs(&fld.pre.attrs, "field", &format!("{ep}/m{q}"));
                                ck.type_attrs(&fld.ty, &format!("{ep}/m{q}/type"));
                            }
                        }
                    }
                    for (_v, g) in seen_values {
                        if g.len() > 1 {
                            for ep in g {
                                ck.v("R-ENUMERATOR-UNIQUE", "E022", &ep);
                            }
                        }
                    }
                }
                DefM::Custom(c) => ck.attrs(&c.pre.attrs, "custom", &dp),
                DefM::Alias(a) => {
                    ck.attrs(&a.pre.attrs, "alias", &dp);
                    ck.type_attrs(&a.ty, &format!("{dp}/type"));
                    if a.ty.optional {
                        ck.v("R-ALIAS-OPTIONAL", "E034", &dp);
                    }
                }
            }
        }
    }
    // a definition with the scoped name of some file's module (the names share one table)
    {
        let modules: BTreeSet<String> = p.files.iter().filter_map(|f| f.module.as_ref().map(|m| m.scope())).collect();
        for (scope, names) in &def_names {
            for (n, at) in names {
                if modules.contains(&join(scope, n)) {
                    ck.v("R-NAME-MODULE-DEFINITION", "E010", at);
                }
            }
        }
    }
    for (_scope, names) in def_names {
        ck.unique_names(&names, "R-NAME-DEFINITION");
    }

    // ---- resolution ------------------------------------------------------------------------
    let mut resolver = Resolver::new(p);
    let canon = resolver.resolve_program();
    for e in &resolver.errors {
        let rule = match e.code {
            "E033" => "R-RESOLVE-MISSING",
            "E017" => "R-RESOLVE-KIND",
            _ => "R-ALIAS-LOOP",
        };
        ck.out.push(Violation {
            rule,
            code: e.code,
            at: e.at.clone(),
        });
    }
    // an alias loop makes every use fail to resolve: E033 is an admissible consequence
    if resolver.errors.iter().any(|e| e.code == "E019") {
        ck.v("R-ALIAS-LOOP", "E033", "");
    }

    if let Some(canon) = &canon {
        report.resolved = true;
        // index of definitions by scoped name (first wins; duplicates are E010 anyway)
        let mut defs: HashMap<String, (usize, usize)> = HashMap::new();
        for (fi, f) in p.files.iter().enumerate() {
            let scope = f.module.as_ref().map(|m| m.scope()).unwrap_or_default();
            for (di, d) in f.defs.iter().enumerate() {
                defs.entry(join(&scope, d.name())).or_insert((fi, di));
            }
        }
        let types = Types { p, defs };

        // containment graph, enum underlying kinds, dictionary keys, inherited operations
        let mut edges: BTreeMap<String, BTreeSet<String>> = BTreeMap::new();
        // interface -> (bases scoped, own op names)
        let mut ifaces: BTreeMap<String, (Vec<String>, Vec<(String, String)>)> = BTreeMap::new();
        for (fi, f) in canon.files.iter().enumerate() {
            let scope = f.module.as_ref().map(|m| m.scope()).unwrap_or_default();
            for (di, d) in f.defs.iter().enumerate() {
                let dp = format!("f{fi}/d{di}");
                let ds = join(&scope, d.name());
                match d {
                    DefM::Struct(s) => {
                        let e = edges.entry(ds.clone()).or_default();
                        let mut c = Vec::new();
                        for fld in &s.fields {
                            contained(&fld.ty, &mut c);
                        }
                        e.extend(c);
                        for (k, fld) in s.fields.iter().enumerate() {
                            keys_in(&fld.ty, &types, &format!("{dp}/m{k}/type"), &mut ck.out);
                        }
                    }
                    DefM::Enum(en) => {
                        let e = edges.entry(ds.clone()).or_default();
                        let mut c = Vec::new();
                        for x in &en.enumerators {
                            for fld in x.fields.iter().flatten() {
                                contained(&fld.ty, &mut c);
                            }
                        }
                        e.extend(c);
                        for (k, x) in en.enumerators.iter().enumerate() {
                            for (q, fld) in x.fields.iter().flatten().enumerate() {
                                keys_in(&fld.ty, &types, &format!("{dp}/m{k}/m{q}/type"), &mut ck.out);
                            }
                        }
                        if let Some(u) = &en.underlying {
                            if let TypeK::Prim(prim) = &u.kind {
                                if !is_integral(prim) {
                                    ck.v("R-UNDERLYING-INTEGRAL", "E009", &dp);
                                } else if let Some((lo, hi)) = prim_bounds(prim) {
                                    for (k, x) in en.enumerators.iter().enumerate() {
                                        if x.effective < lo || x.effective > hi {
                                            ck.v("R-ENUMERATOR-RANGE", "E020", &format!("{dp}/m{k}"));
                                        }
                                    }
                                }
                            }
                        }
                    }
                    DefM::Interface(i) => {
                        let bases: Vec<String> = i
                            .bases
                            .iter()
                            .filter_map(|b| match &b.kind {
                                TypeK::Named(n) => n.split_once(' ').map(|x| x.1.to_owned()),
                                _ => None,
                            })
                            .collect();
                        let ops = i.ops.iter().enumerate().map(|(k, o)| (o.name.clone(), format!("{dp}/m{k}"))).collect();
                        ifaces.insert(ds.clone(), (bases, ops));
                        for (k, op) in i.ops.iter().enumerate() {
                            for (q, x) in op.params.iter().enumerate() {
                                keys_in(&x.ty, &types, &format!("{dp}/m{k}/p{q}/type"), &mut ck.out);
                            }
                            for (q, x) in op.ret.members().iter().enumerate() {
                                keys_in(&x.ty, &types, &format!("{dp}/m{k}/r{q}/type"), &mut ck.out);
                            }
                        }
                    }
                    DefM::Alias(a) => keys_in(&a.ty, &types, &format!("{dp}/type"), &mut ck.out),
                    DefM::Custom(_) => {}
                }
            }
        }
        // cycles
        let on_cycle = nodes_on_cycles(&edges);
        if !on_cycle.is_empty() {
            ck.v("R-CYCLE", "E032", "");
        }
        report.on_cycle = on_cycle;
        // inheritance loops and inherited-operation redeclaration
        let iface_edges: BTreeMap<String, BTreeSet<String>> =
            ifaces.iter().map(|(k, v)| (k.clone(), v.0.iter().cloned().collect())).collect();
        let inherit_loop = nodes_on_cycles(&iface_edges);
        if !inherit_loop.is_empty() {
            ck.v("R-INHERIT-LOOP", "E032", "");
        } else {
            for (name, (_bases, ops)) in &ifaces {
                // all transitive bases
                let mut all: BTreeSet<String> = BTreeSet::new();
                let mut todo: Vec<String> = ifaces[name].0.clone();
                while let Some(b) = todo.pop() {
                    if all.insert(b.clone()) {
                        if let Some((bb, _)) = ifaces.get(&b) {
                            todo.extend(bb.iter().cloned());
                        }
                    }
                }
                let inherited: BTreeSet<&String> = all.iter().filter_map(|b| ifaces.get(b)).flat_map(|x| x.1.iter().map(|o| &o.0)).collect();
                for (op, at) in ops {
                    if inherited.contains(op) {
                        ck.v("R-INHERITED-OPERATION", "E011", at);
                    }
                }
            }
        }
    }
    let _ = EKind::Module;
    ck.out.sort();
    ck.out.dedup();
    report.violations = ck.out;
    report
}
