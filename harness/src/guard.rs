//! Memory-safety instruments for C11 / C12 (DESIGN 2.4):
//!
//! * `GuardArena` — an anonymous mapping whose last page is `PROT_NONE`; `place` copies a byte
//!   string so that its last byte is the last accessible byte, i.e. a read or write of even one
//!   byte past the end faults (SIGSEGV kills the worker, the supervisor reports the journalled
//!   case as `crash/SIGSEGV`).
//! * `CanaryBuf` — a slice embedded between two canary regions whose pattern is verified
//!   afterwards (an in-process detector with a readable diagnosis; it also sees *under*-writes).
//! * resource helpers: address-space cap (`RLIMIT_AS`), peak-RSS reading and re-arming, and a
//!   fork-based self test that proves the guard page really faults in this sandbox.

use std::cell::RefCell;

pub fn page_size() -> usize {
    let p = unsafe { libc::sysconf(libc::_SC_PAGESIZE) };
    if p <= 0 {
        4096
    } else {
        p as usize
    }
}

pub struct GuardArena {
    base: *mut u8,
    map_len: usize,
    /// number of accessible bytes in front of the guard page
    data_cap: usize,
}

impl GuardArena {
    pub fn new(min_cap: usize) -> GuardArena {
        let ps = page_size();
        let data_cap = (min_cap.max(1)).div_ceil(ps) * ps;
        let map_len = data_cap + ps;
        unsafe {
            let p = libc::mmap(
                std::ptr::null_mut(),
                map_len,
                libc::PROT_READ | libc::PROT_WRITE,
                libc::MAP_PRIVATE | libc::MAP_ANONYMOUS,
                -1,
                0,
            );
            assert!(p != libc::MAP_FAILED, "guard arena: mmap failed");
            let base = p as *mut u8;
            let rc = libc::mprotect(base.add(data_cap) as *mut libc::c_void, ps, libc::PROT_NONE);
            assert!(rc == 0, "guard arena: mprotect failed");
            GuardArena { base, map_len, data_cap }
        }
    }

    pub fn capacity(&self) -> usize {
        self.data_cap
    }

    /// Address of the first byte of the guard page.
    pub fn guard_addr(&self) -> *const u8 {
        unsafe { self.base.add(self.data_cap) }
    }

    /// A mutable slice of `len` bytes that ends exactly at the guard page, filled by `fill(i)`.
    pub fn place_with(&mut self, len: usize, fill: impl Fn(usize) -> u8) -> &mut [u8] {
        assert!(len <= self.data_cap, "guard arena too small: {len} > {}", self.data_cap);
        unsafe {
            let start = self.base.add(self.data_cap - len);
            let s = std::slice::from_raw_parts_mut(start, len);
            for (i, b) in s.iter_mut().enumerate() {
                *b = fill(i);
            }
            s
        }
    }

    /// Copies `bytes` flush against the guard page.
    pub fn place(&mut self, bytes: &[u8]) -> &mut [u8] {
        assert!(bytes.len() <= self.data_cap, "guard arena too small: {} > {}", bytes.len(), self.data_cap);
        unsafe {
            let start = self.base.add(self.data_cap - bytes.len());
            std::ptr::copy_nonoverlapping(bytes.as_ptr(), start, bytes.len());
            std::slice::from_raw_parts_mut(start, bytes.len())
        }
    }
}

impl Drop for GuardArena {
    fn drop(&mut self) {
        unsafe {
            libc::munmap(self.base as *mut libc::c_void, self.map_len);
        }
    }
}

thread_local! {
    static ARENA: RefCell<Option<GuardArena>> = const { RefCell::new(None) };
}

/// Runs `f` with this thread's arena (grown on demand to hold `min_cap` bytes).  Not re-entrant.
pub fn with_arena<R>(min_cap: usize, f: impl FnOnce(&mut GuardArena) -> R) -> R {
    ARENA.with(|a| {
        // A panic inside `f` (caught further up) must not poison the arena: take it out, put it back.
        let mut arena = match a.try_borrow_mut().ok().and_then(|mut g| g.take()) {
            Some(ar) if ar.capacity() >= min_cap => ar,
            _ => GuardArena::new(min_cap.max(1 << 16)),
        };
        let r = f(&mut arena);
        if let Ok(mut g) = a.try_borrow_mut() {
            *g = Some(arena);
        }
        r
    })
}

// ------------------------------------------------------------------------------------------
// Canary-padded buffers
// ------------------------------------------------------------------------------------------

pub const CANARY_PAD: usize = 64;

fn canary_byte(i: usize) -> u8 {
    // never 0 and never a small number, position dependent
    0xA5 ^ ((i as u8).wrapping_mul(0x1D) & 0x5A)
}

pub struct CanaryBuf {
    mem: Vec<u8>,
    len: usize,
}

impl CanaryBuf {
    /// `len` payload bytes initialised with `fill(i)`, with `CANARY_PAD` canary bytes on each side.
    pub fn new(len: usize, fill: impl Fn(usize) -> u8) -> CanaryBuf {
        let mut mem = Vec::with_capacity(len + 2 * CANARY_PAD);
        for i in 0..CANARY_PAD {
            mem.push(canary_byte(i));
        }
        for i in 0..len {
            mem.push(fill(i));
        }
        for i in 0..CANARY_PAD {
            mem.push(canary_byte(CANARY_PAD + i));
        }
        CanaryBuf { mem, len }
    }
    pub fn inner_mut(&mut self) -> &mut [u8] {
        &mut self.mem[CANARY_PAD..CANARY_PAD + self.len]
    }
    pub fn inner(&self) -> &[u8] {
        &self.mem[CANARY_PAD..CANARY_PAD + self.len]
    }
    /// Err(description) if a canary byte was modified.
    pub fn check(&self) -> Result<(), String> {
        for i in 0..CANARY_PAD {
            if self.mem[i] != canary_byte(i) {
                return Err(format!(
                    "byte {} before the start of the slice was overwritten with {:#04x}",
                    CANARY_PAD - i,
                    self.mem[i]
                ));
            }
        }
        for i in 0..CANARY_PAD {
            let at = CANARY_PAD + self.len + i;
            if self.mem[at] != canary_byte(CANARY_PAD + i) {
                return Err(format!(
                    "byte {} past the end of the slice (capacity {}) was overwritten with {:#04x}",
                    i, self.len, self.mem[at]
                ));
            }
        }
        Ok(())
    }
}

// ------------------------------------------------------------------------------------------
// Resources
// ------------------------------------------------------------------------------------------

/// Caps this process's address space (soft `RLIMIT_AS`).  Idempotent; returns the cap in force
/// (which may be lower than requested if the process was already capped more tightly).
pub fn cap_address_space(bytes: u64) -> u64 {
    use std::sync::atomic::{AtomicU64, Ordering};
    static IN_FORCE: AtomicU64 = AtomicU64::new(0);
    let cur = IN_FORCE.load(Ordering::Relaxed);
    if cur != 0 {
        return cur;
    }
    // Under the libFuzzer/ASan build the shadow memory needs terabytes of address space: there
    // libFuzzer's own -rss_limit_mb / -malloc_limit_mb guard the sandbox, and every input it saves is
    // re-judged in the ordinary (capped) build.
    if std::env::var_os("VFUZZ_PROP").is_some() {
        IN_FORCE.store(u64::MAX, Ordering::Relaxed);
        return u64::MAX;
    }
    let in_force;
    unsafe {
        let mut rl: libc::rlimit = std::mem::zeroed();
        if libc::getrlimit(libc::RLIMIT_AS, &mut rl) == 0 {
            let want = bytes as libc::rlim_t;
            if rl.rlim_cur == libc::RLIM_INFINITY || rl.rlim_cur > want {
                let new = libc::rlimit {
                    rlim_cur: if rl.rlim_max != libc::RLIM_INFINITY && rl.rlim_max < want { rl.rlim_max } else { want },
                    rlim_max: rl.rlim_max,
                };
                if libc::setrlimit(libc::RLIMIT_AS, &new) != 0 {
                    // Cannot protect the sandbox: refuse to run (infrastructure problem).
                    eprintln!("vcheck: setrlimit(RLIMIT_AS) failed; refusing to decode untrusted sizes");
                    std::process::exit(2);
                }
                in_force = new.rlim_cur as u64;
            } else {
                in_force = rl.rlim_cur as u64;
            }
        } else {
            eprintln!("vcheck: getrlimit(RLIMIT_AS) failed");
            std::process::exit(2);
        }
    }
    IN_FORCE.store(in_force, Ordering::Relaxed);
    in_force
}

/// Peak resident set size of this process in KiB (`ru_maxrss`; one cheap system call).
pub fn max_rss_kib() -> u64 {
    unsafe {
        let mut ru: libc::rusage = std::mem::zeroed();
        if libc::getrusage(libc::RUSAGE_SELF, &mut ru) == 0 {
            ru.ru_maxrss as u64
        } else {
            0
        }
    }
}

/// Re-arms the peak-RSS counter (Linux: writing 5 to /proc/self/clear_refs resets the high-water
/// mark to the current RSS).  Best effort.
pub fn reset_max_rss() -> bool {
    std::fs::write("/proc/self/clear_refs", b"5").is_ok()
}

/// Proves that touching the guard page kills a process with SIGSEGV/SIGBUS in this environment:
/// a forked child reads the first guard byte.  Returns true if the child died from the access.
pub fn guard_page_selftest() -> bool {
    let arena = GuardArena::new(16);
    unsafe {
        let pid = libc::fork();
        if pid < 0 {
            return false;
        }
        if pid == 0 {
            // child: default action for SIGSEGV (the Rust runtime's handler re-raises for non stack-overflow faults)
            libc::signal(libc::SIGSEGV, libc::SIG_DFL);
            libc::signal(libc::SIGBUS, libc::SIG_DFL);
            let v = std::ptr::read_volatile(arena.guard_addr());
            libc::_exit(if v == 0 { 0 } else { 1 });
        }
        let mut status: libc::c_int = 0;
        loop {
            let r = libc::waitpid(pid, &mut status, 0);
            if r == pid {
                break;
            }
            if r < 0 && std::io::Error::last_os_error().kind() != std::io::ErrorKind::Interrupted {
                return false;
            }
        }
        libc::WIFSIGNALED(status) && (libc::WTERMSIG(status) == libc::SIGSEGV || libc::WTERMSIG(status) == libc::SIGBUS)
    }
}
