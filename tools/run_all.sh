#!/bin/bash
# tools/run_all.sh [tier] : run every registered check once, print the summary lines
TIER="${1:-quick}"
cd "$(dirname "${BASH_SOURCE[0]}")/.."
for id in $(python3 -c "import json;print(' '.join(c['property_id'] for c in json.load(open('MANIFEST.json'))['checks']))"); do
  OUT=$(./check $id $TIER 2>&1); RC=$?
  echo "$id rc=$RC $(echo "$OUT" | grep -E '^vcheck\[' | tail -1)"
  echo "$OUT" | grep -E "VIOLATION|KNOWN-FINDING|INCONCLUSIVE|class:" | head -5
done
