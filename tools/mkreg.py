#!/usr/bin/env python3
"""tools/mkreg.py <PROP> <name> <expect> <note> < text   -> regressions/<PROP>/<name>.json (family direct, bytes = stdin)"""
import sys, json, os
prop, name, expect, note = sys.argv[1:5]
family = sys.argv[5] if len(sys.argv) > 5 else "direct"
data = sys.stdin.buffer.read()
os.makedirs(f"/verif/regressions/{prop}", exist_ok=True)
json.dump({"property": prop, "family": family, "kind": "bytes", "bytes_hex": data.hex(), "index": 0, "expect": expect, "note": note,
           "text": data.decode('utf-8', 'replace')}, open(f"/verif/regressions/{prop}/{name}.json", "w"), indent=1)
