#!/usr/bin/env python3
"""Regenerates /verif/MANIFEST.json from the table below (run after adding a check)."""
import json, subprocess

BASELINE_OFF = "cd /repo && cargo nextest run --workspace --no-fail-fast --offline"

# id -> (technique, level category, level text, level note, design ref)
CHECKS = {
 "C19": ("bounded-exhaustive enumeration + proptest round trip against a reference parser; differential through the binary with a capturing fake generator",
         "exploration",
         "Every string of length <= 5 (quick) / <= 7 (thorough) over {a,space,',','=','\\\\'} in three argv spellings is compared with an independent reference parser (complete within that bound); beyond it, generated Unicode path/argument lists are rendered through the escaping function and must parse back exactly, in-process and through the real binary to capturing generators (1..3 specifications over two generators, the same path twice in a row or with the other in between, values up to 5000 characters, up to 50 pairs: every specification starts its generator once with its own arguments). No counterexample within the bound and in N random cases; not a proof for longer strings.",
         "trusts the reference parser written from the statement (self-checked against the escaping function on every random case), clap's argv handling, and the fake generator's stdin capture",
         "DESIGN.md section 5, C19"),
 "C02": ("proptest choice-sequence grammar generator x layout metamorphosis; observed AST == canonical model (reference resolver)",
         "exploration",
         "Well-formed multi-file programs are generated constructively from choice bytes and printed in 3 (quick) / 5 (thorough) token-level layouts each; after an error-free compile the program re-built from the AST through the public API must equal the abstract program field by field, for every layout (files may also come without definitions, without a module declaration, with file attributes only; string arguments with backslashes at their edges). No counterexample in N generated programs of the stated distribution (class histogram in the evidence); not exhaustive.",
         "trusts the generator/printer pair (a printer bug shows up as a failure, not as a silent pass), the reference resolver of C03 for the resolved form of named references, and the typed projection of the five built-in attributes",
         "DESIGN.md section 5, C02"),
 "C03": ("bounded-exhaustive scope arrangements + proptest alias chains against a reference name table / scope resolver; differential on accept/reject, bindings, error placement, find_element",
         "exploration",
         "All 2 239 488 arrangements of three nested module levels (distinct names, and two schemes in which inner modules repeat an outer name) x same-named definition of every kind x 12 spellings x 8 positions x file orders (complete in the thorough tier, every 7th in quick), every kind of type in base / second-base / underlying position, plus random alias chains and programs are resolved by an independent reference model; the compiler must accept exactly when the model resolves, bind to the designated entity with the accumulated attributes, and otherwise report an admissible code inside the offending reference.",
         "trusts the reference resolver written from the statement; generated programs contain no module/definition name collisions (C15 and C04 cover those)",
         "DESIGN.md section 5, C03"),
 "C04": ("proptest programs with injected violations + bounded-exhaustive small-scope families, judged by an independent table-driven rule checker (both directions)",
         "exploration",
         "A reference checker implementing the whole rule catalogue recomputes the violated rules of every generated program (0..3 injections out of a 49-entry catalogue at boundary values, and five exhaustive small-scope families: tags/optional/compact over <= 3 members, stream placements, enum shapes, key types to depth 2, attribute x target). Well-formed <=> accepted, and every reported error code must belong to a rule the program violates. Complete within the small-scope families, sampled beyond. One open finding (F-04b, attributes on underlying types and bases are not validated) is reported as KNOWN-FINDING.",
         "trusts the reference rule checker (written from the statement and the language reference; validated by 0 disagreements on the pinned tree apart from the listed findings); which of several simultaneous violations is reported is not asserted",
         "DESIGN.md section 5, C04"),
 "C05": ("bounded-exhaustive graph enumeration (containment, alias, inheritance) with an SCC reference; chains validated through note spans",
         "exploration",
         "Every containment graph over <= 3 struct/enum nodes x kinds x 10 wrapper forms (complete), every edge set over 4 nodes (complete in thorough), random graphs to 10 nodes, every assignment of 10 alias target forms (incl. Result forms and the same alias twice) over <= 4 aliases and every inheritance relation over <= 4 interfaces, in one module and spread over two modules that repeat simple names; enum nodes with field-less enumerators around the ones with fields: E032 is reported iff a node lies on a cycle, every on-cycle node is named, every reported chain is a closed path of written fields; loops are rejected without crash.",
         "trusts the SCC analysis and the printer's recorded field positions; dense DAGs are C01's growth probe",
         "DESIGN.md section 5, C05"),
 "C06": ("bounded-exhaustive line sequences and expression strings + constructive random files against a line-oriented reference interpreter",
         "exploration",
         "Every sequence of <= 4 (quick) / <= 5 (thorough, 6-7 strided) lines over a 21-form alphabet x all 8 -D subsets, every expression token string up to length 5/7 x 8 valuations, two-file leak sets, and constructively generated balanced files (nesting <= 5, CRLF, indentation, comments, diagnostics with positions) are interpreted by an independent reference; selected probes, their rows/columns and the presence of E002 must agree.",
         "trusts the reference interpreter written from the statement and the documented expression grammar; with several malformed lines only one E002 on such a line is required",
         "DESIGN.md section 5, C06"),
 "C09": ("proptest programs x layouts; expected spans = token positions recorded by the printer; injected rule violations with the reference rule checker naming the offending element; synthetic diagnostics over every element span re-parsed against a cell-by-cell snippet reference; model-free regression family",
         "exploration",
         "The printer records the character position of every token and the token range of every element; after an error-free compile every span reachable through the public API (elements, identifiers, tags, values, attributes, type expressions, doc-comment parts) must be inside its file, ordered and tight in the sense of the statement, under layouts with tabs, CRLF and multi-byte characters. For programs with injected rule violations every diagnostic and note span must be inside its file and every error must lie inside the text of an element the reference rule checker names for that code. Every element span, joined spans and zero-width positions are rendered by the real emitter and the snippet (line numbers, tab-expanded lines, underline cells) must match the reference.",
         "trusts the printer's own position bookkeeping (characters, '\\n' as the only line break); lenient on escaped-identifier start, attribute inclusion in type spans and the exact end token, as listed in the evidence assumptions; for duplicate-type rules every member of the duplicate group counts as offending; lint diagnostics of doc comments are located by C16's families, not here",
         "DESIGN.md section 5, C09"),
 "C20": ("proptest programs; recording Visitor vs. traversal order derived from the abstract program",
         "exploration",
         "Every file of generated multi-file programs (anonymous types to depth 3, aliases of anonymous types across files) is walked with a recording visitor; the callback sequence must equal the sequence derived from the model: nothing skipped, nothing twice, containers first, type trees depth-first right after their owner.",
         "trusts the generator and the canonical (resolved) form from the C03 reference resolver",
         "DESIGN.md section 5, C20"),
 "C08": ("proptest programs through the real binary; capturing fake generator; schema-driven reference decoder (schema loaded from /repo/slice/Compiler); structural comparison with the canonical model",
         "exploration",
         "Generated well-formed multi-file programs (anonymous types to depth 3, aliases across files, doc comments with links / see / @param / @returns, extreme enumerator values and tags, attributes) are compiled by the real slicec binary with random source/reference splits, path spellings and generator argument lists; the bytes each capturing generator receives must decode completely according to the shipped schema and equal the program: file split and orders, modules, attributes, identifiers, flags, tags, values, bases, type references resolved structurally (numeric ids earlier / anonymous / same file), comments with resolved links, per-parameter and per-return documentation, arguments.",
         "trusts the reference wire decoder written from the C10 statement and the schema files as parsed by slicec itself (C02); parts the request cannot express are listed in the evidence assumptions",
         "DESIGN.md section 5, C08"),
 "C10": ("bounded-exhaustive sweeps (8/16-bit values, varint/varuint < 2^30, boundary neighbourhoods) + proptest values; bit-level reference encoder; round trip",
         "exploration",
         "All 8- and 16-bit values of the fixed-width types, every variable-width value of magnitude < 2^30 (complete in the thorough tier, < 2^17 plus a stride in quick), all values within 64 of every power of two and range limit, collections whose lengths cross the size-prefix thresholds (63/64, 16383/16384) nested to depth 3, and random values of 25 static types are encoded on both targets: bytes must equal an independent bit-level reference exactly, decode must return the value and consume everything, out-of-range values must be refused with the target untouched.",
         "trusts the reference encoder written from the statement (two independent formulations cross-checked); HashMap wire order is that instance's iteration order",
         "DESIGN.md section 5, C10"),
 "C11": ("bounded-exhaustive byte strings (<= 2 / <= 3) + proptest random / truncated / corrupted encodings, differential against a reference decoder; guard pages; RSS / CPU-time bounds; reply types through the binary",
         "exploration",
         "For 24 decodable types every byte string of length <= 2 (quick) / <= 3 (thorough), random strings to 64 bytes, every truncation and single-byte corruption of valid encodings, announce-large sizes (2^8..2^61) and duplicate keys are decoded with the input flush against a PROT_NONE page: Ok <=> reference Ok with equal value and consumed prefix, no panic, every error renders, cost bounded (peak RSS growth < 64 MiB, < 50 ms CPU for <= 64-byte inputs). The generator-reply types are reached through the real binary with a fake generator replying the bytes.",
         "trusts the reference decoder; error kinds are not compared; over-long variable-width encodings are legal; cost thresholds are two orders of magnitude away from normal behaviour",
         "DESIGN.md section 5, C11"),
 "C12": ("bounded-exhaustive operation histories (<= 4 / <= 5 ops) + proptest histories to length 200, lock-step with a reference append-only log; canaries and guard pages",
         "exploration",
         "Every history of <= 4 (quick) / <= 5 (thorough) operations over {write byte, write k bytes, reserve k, write k bytes into reservation r (live or exhausted), remaining} with k in 0..3 on fixed-slice targets of capacity 0..4 and growable targets (with initial content and small capacity so that reallocation happens between reserve and fill), and over {peek, read, const-N and slice variants} on input sources, is run in lock step with a reference model: same Ok/Err, same remaining, same contents after every prefix, failing operations change nothing, canaries around the slice intact; plus random histories to length 200 with sizes to 4 KiB.",
         "trusts the reference log model; unwritten reservation bytes of the fixed-slice target may hold old content or zero",
         "DESIGN.md section 5, C12"),
 "C16": ("proptest doc-comment generator on every commentable position + defect catalogue; reference text / tag / link semantics; C02 comparison retained",
         "exploration",
         "Generated doc comments (uniform, deeper, non-ASCII and mixed indentation, empty and white-space-only lines, inline links at line start / middle / end, @param / @returns / @see with inline and continuation messages; targets of every kind and scope distance incl. members, modules, primitives, missing names) on structs, fields, interfaces, operations, enums, enumerators, enumerator fields, custom types and aliases must come back as the written lines minus their common indentation, with the written tag identifiers and with links bound by the reference outward lookup started at the documented element; unresolved links, malformed (10 forms) and misfitting (7 forms, three of them with two tags in one comment and the number of lints expected) comments give warnings, never errors, and never cost an element.",
         "exact text comparison only for uniformly indented comments; mixed-kind indentation and white-space-only lines are compared leniently (same links, same non-blank characters)",
         "DESIGN.md section 5, C16"),
 "C17": ("proptest directory trees and argument lists (symlinks, '..', '//', absolute paths, unreadable entries under a dropped euid) against a reference file-set model; subset through the binary",
         "exploration",
         "Random trees (depth <= 4) with .slice files, other extensions, x.slice directories, symlinks to files and directories, dangling links, non-UTF-8 and mode-000 entries, and argument lists aliasing the same file through many spellings in both lists are compiled in-process; the file list (order, is_source, spelling), DuplicateFile warnings and E001 errors must equal an independent model with its own POSIX path resolver; nothing is parsed after an I/O error. A subset runs through the real binary and checks the source/reference split in the captured request.",
         "order within a walked directory is not asserted; number of DuplicateFile warnings per repeated file may be 1..routes-1; the binary family uses a weaker marker-based oracle",
         "DESIGN.md section 5, C17"),
 "C01": ("bounded-exhaustive token soups and type-form x position programs, proptest mutations / arbitrary Unicode / injected programs, enumerated cycle graphs, growth probe; isolated workers with crash journal and 20 s watchdog; binary runs with option vectors",
         "exploration",
         "Every sequence of <= 2 (quick) / <= 3 (thorough) tokens over an 82-token alphabet in 8 contexts, 22 type forms in 14 positions, enumerated alias / inheritance / containment graphs, thousands of mutated generated programs and shipped .slice files, arbitrary Unicode and programs with injected violations are run through compile + diagnostic patching + both emitters in isolated worker processes (a death or a case over 20 s is seen by the supervisor, confirmed solo with a tripled bound, shrunk and reported), and a fraction through the real binary with 22 option vectors (exit status in {0,1,2}, no signal, no panic). A probe over eight dense shapes (acyclic containment and inheritance graphs, a cycle next to / behind a dense graph, an alias DAG, dictionary keys over a DAG of compact structs), measured in CPU time, guards the time bound; definitions and modules named like primitives and raw source text (seeded, with a token dictionary, mostly for the coverage-guided stage) complete the families. One open finding (F-01h, exponential time on a DAG of aliases of anonymous types) is reported as KNOWN-FINDING.",
         "absence of crashes only for the explored inputs; 'grows gently' is asserted as the stated bound plus the doubling probe; undefined behaviour that happens not to crash is only seen by the thorough tier's ASan stage",
         "DESIGN.md section 5, C01"),
 "C07": ("proptest run configurations through the real binary with instrumented fake generators (invocation log, output files)",
         "exploration",
         "19 program states (clean, warnings only by three lints, one error of each phase incl. three I/O errors, a cycle through any anonymous type, a cross-file redefinition, an illegal file attribute alone in a module-less file, an error in a conditional branch that only another file's #define would change, in any of 1..4 source / reference files; DuplicateFile warning and module-less extra files next to any state) x 0..3 generators (one optionally failing by exit status, stderr or a signal after a complete reply) x --dry-run x format x -A lists x -O (also with identical files already in the working directory) x option order: generators run and files appear iff no error and no --dry-run; warnings never prevent generation; exit status != 0 iff an error diagnostic was emitted.",
         "trusts the fake generator's invocation log and the parsing of emitted diagnostics (JSON lines / 'error [' headers)",
         "DESIGN.md section 5, C07"),
 "C13": ("bounded-exhaustive template matrix (lint x site x placement x argument x decoy) with a reference predicate; proptest random programs with many lints and random suppressions judged by a location-based reference predicate; metamorphic with/without pairs; binary subset",
         "exploration",
         "All 6048 cells of lint kind x 12 sites x 9 placements x 7 argument shapes (incl. separate attributes and a decoy allow closer to the site) are compiled in-process: the statement's predicate decides the expected level; the with/without pair must differ in nothing but that level and the added attribute (diagnostics, AST); random programs with many lints (deprecated uses, comments the lexer and the grammar of comments reject, misfitting tags, broken links) and 1..4 random suppressions are judged by a location-based reference predicate; 10 error templates stay errors under allow(All) everywhere, between the two uses of a repeated attribute, and -A All; through the binary: case-insensitive -A spellings, DuplicateFile, exit status, identical generator request. Complete over the matrix.",
         "trusts the reference predicate; for a single unnamed return value the element concerned is the operation",
         "DESIGN.md section 5, C13"),
 "C14": ("proptest bundles of diagnostic producers on real files; the emitted stream is parsed back and compared with the Diagnostic accessors (library) and with the binary's stderr / stdout / exit status",
         "exploration",
         "Files with hostile names and text (quotes, backslashes, control and non-ASCII characters, tabs, CRLF) producing 0..30 diagnostics of every shape (no span / single line / multi-line / zero width; notes with and without span) are emitted in human and JSON format with colours forced on or disabled and five -A lists: JSON = exactly one five-key object per non-silenced diagnostic in order; human = header, location line, snippet with the right line numbers and exactly the spanned cells underlined (tab = 4), notes; silenced lints leave no trace; a shown warning is never one the -A list names; diagnostics of the parsing phase come file by file in source order; notes that point into another file show that file's line; no ESC with colours disabled; binary stderr equals the library stream (plus exactly one E001 per failing generator), totals and exit status match.",
         "trusts the re-parser of the human format (written from the statement: tab = 4 cells); user text has no ESC and no line break",
         "DESIGN.md section 5, C14"),
 "C15": ("proptest multi-file programs on real files: every permutation and source/reference assignment in-process; collision / preprocessor / cycle templates; repeated and permuted runs of the real binary with decoded requests",
         "exploration",
         "Generated 1..4-file programs (valid, with warnings, with one injected error) are compiled in every file order (all 24 for 4 files) and every source/reference assignment: acceptance, per-path observed content and the multiset of warnings must not change; 34 templates target name collisions (definition vs definition, vs nested module, vs enclosing scope of a deeper module; member vs module), preprocessor symbols across files, cycles spread over files and tag-only doc comments; one file listed twice, adjacent or apart; in the binary family an extra module-less file at a drawn position and five generator arguments; the same argv twice in fresh processes must give byte-identical streams and requests, permuted runs the same per-path decoded request.",
         "hash-map iteration order differs between processes, so in-process repetition is weaker than the two-process comparison (both are done); error diagnostics of rejected programs are not compared across orders",
         "DESIGN.md section 5, C15"),
 "C18": ("fault enumeration: proptest-drawn combinations of 1..3 generators x process-level and reply-level fault catalogue x output directory situations, through the real binary, judged by the reference reply decoder",
         "fault_enumeration",
         "Each generator is independently one of 13 process-level behaviours or one of ~3000 reply-level faults (every truncation point and byte corruptions of three reply shapes, all one-byte replies, invalid bool / UTF-8 / level, sizes to 2^61, unknown / malformed tagged fields, empty, trailing bytes), in first / middle / last position next to good generators, with output directory absent / given / nonexistent / below a file / holding identical and different files: every runnable generator runs once, exactly one error names each failing one, the output tree holds exactly the files of replies the reference decoder accepts, identical files keep inode and mtime, exit status matches, no crash, no hang, identical request with own arguments.",
         "the fault catalogue is sampled in combination (single faults are covered exhaustively by C11's reply family); a generator that exits without reading a small request is a race and judged leniently",
         "DESIGN.md section 5, C18"),
}

# properties whose thorough tier also runs the coverage-guided stage (Check::fuzz_families)
FUZZED = {
 "C01": "text, unicode, mutations, valid", "C02": "programs", "C03": "alias-chains, programs", "C04": "injected",
 "C05": "random", "C06": "files, multifile", "C09": "programs, diagnostics, comment-defects, snippets", "C10": "values",
 "C11": "random, mutate, duplicate-keys", "C12": "out-random, in-random", "C13": "random", "C15": "in-process", "C16": "comments, defects",
 "C17": "tree", "C19": "roundtrip", "C20": "programs",
}

NOT_YET = "check not built yet in this session (see DESIGN.md section 9 for the build order); will be claimed once its machinery is in place"

def main():
    props = [json.loads(l) for l in open('/verif/properties.jsonl')]
    checks = []
    na = []
    for p in props:
        pid = p['id']
        if pid in CHECKS:
            tech, cat, text, note, ref = CHECKS[pid]
            if pid in FUZZED:
                tech += "; thorough tier adds a coverage-guided libFuzzer/ASan stage over the same case functions (families: " + FUZZED[pid] + ")"
            checks.append({
                "property_id": pid,
                "quick_cmd": f"./check {pid} quick",
                "thorough_cmd": f"./check {pid} thorough",
                "evidence_file": f"/verif/evidence/{pid}.json",
                "replay_cmd_template": f"./check {pid} --replay {{path}}",
                "engine": "vcheck",
                "level_claimed": {"category": cat, "text": text, "design_ref": ref},
                "level_note": note,
                "technique": tech,
            })
        else:
            na.append({"property_id": pid, "reason": NOT_YET})
    m = {
        "version": 1,
        "setup_cmd": "./check setup",
        "hooks": {
            "guard": "slicec_verif",
            "enable": "no hooks are needed: every check observes /repo through its public library API or the process boundary of the slicec binary; checks build /repo's current working tree as it is (path dependency + cargo build of the binary into /verif/target/repo)",
            "baseline_off_cmd": BASELINE_OFF,
            "source_commits": [],
            "add_only": True,
        },
        "engines": [
            {"name": "vcheck", "path": "/verif/harness", "serves_properties": sorted(CHECKS.keys()),
             "kind_free_text": "Rust harness: supervisor + 16 isolated worker processes with mmap crash journal; proptest-driven choice-sequence generators (arbitrary::Unstructured), bounded-exhaustive enumerators, reference models / differential / metamorphic oracles, shrinking, replay files; thorough tier: one cargo-fuzz (libFuzzer + ASan) target under /verif/fuzz drives the same case functions, saved inputs are re-judged by the ordinary single-case process"},
        ],
        "checks": checks,
        "notes": "Exit contract: 0 held, 1 VIOLATION line, 2 infrastructure/inconclusive. Known findings: /verif/known_findings.json. Seeded changes used for sensitivity: /verif/seeded/.",
        "not_applicable": na,
    }
    json.dump(m, open('/verif/MANIFEST.json', 'w'), indent=1)
    print("MANIFEST.json:", len(checks), "checks,", len(na), "not claimed")

main()
