#!/usr/bin/env python3
"""Regenerates /verif/MANIFEST.json from the table below (run after adding a check)."""
import json, subprocess

BASELINE_OFF = "cd /repo && cargo nextest run --workspace --no-fail-fast --offline"

# id -> (technique, level category, level text, level note, design ref)
CHECKS = {
 "C19": ("bounded-exhaustive enumeration + proptest round trip against a reference parser; differential through the binary with a capturing fake generator",
         "exploration",
         "Every string of length <= 5 (quick) / <= 7 (thorough) over {a,space,',','=','\\\\'} in three argv spellings is compared with an independent reference parser (complete within that bound); beyond it, generated Unicode path/argument lists are rendered through the escaping function and must parse back exactly, in-process and through the real binary to a capturing generator. No counterexample within the bound and in N random cases; not a proof for longer strings.",
         "trusts the reference parser written from the statement (self-checked against the escaping function on every random case), clap's argv handling, and the fake generator's stdin capture",
         "DESIGN.md section 5, C19"),
}

NOT_YET = "check not built yet in this session (see DESIGN.md section 9 for the build order); will be claimed once its machinery is in place"

def main():
    props = [json.loads(l) for l in open('/verif/properties.jsonl')]
    checks = []
    na = []
    for p in props:
        pid = p['id']
        if pid in CHECKS:
            tech, cat, text, note, ref = CHECKS[pid]
            checks.append({
                "property_id": pid,
                "quick_cmd": f"./check {pid} quick",
                "thorough_cmd": f"./check {pid} thorough",
                "evidence_file": f"/verif/evidence/{pid}.json",
                "replay_cmd_template": f"./check {pid} --replay {{path}}",
                "engine": "vcheck",
                "level_claimed": {"category": cat, "text": text, "design_ref": ref},
                "level_note": note,
                "technique": tech,
            })
        else:
            na.append({"property_id": pid, "reason": NOT_YET})
    m = {
        "version": 1,
        "setup_cmd": "./check setup",
        "hooks": {
            "guard": "slicec_verif",
            "enable": "no hooks are needed: every check observes /repo through its public library API or the process boundary of the slicec binary; checks build /repo's current working tree as it is (path dependency + cargo build of the binary into /verif/target/repo)",
            "baseline_off_cmd": BASELINE_OFF,
            "source_commits": [],
            "add_only": True,
        },
        "engines": [
            {"name": "vcheck", "path": "/verif/harness", "serves_properties": sorted(CHECKS.keys()),
             "kind_free_text": "Rust harness: supervisor + 16 isolated worker processes with mmap crash journal; proptest-driven choice-sequence generators (arbitrary::Unstructured), bounded-exhaustive enumerators, reference models / differential / metamorphic oracles, shrinking, replay files"},
        ],
        "checks": checks,
        "notes": "Exit contract: 0 held, 1 VIOLATION line, 2 infrastructure/inconclusive. Known findings: /verif/known_findings.json. Seeded changes used for sensitivity: /verif/seeded/.",
        "not_applicable": na,
    }
    json.dump(m, open('/verif/MANIFEST.json', 'w'), indent=1)
    print("MANIFEST.json:", len(checks), "checks,", len(na), "not claimed")

main()
