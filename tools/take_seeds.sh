#!/bin/bash
# tools/take_seeds.sh <ID> <checks...> : copy round-2 seeds of <ID> from /tmp/seed/<ID>${ROUND:-r2}/_out, remove the worktree, try each
ID="$1"; shift
for v in a b c; do
  if [ -d /tmp/seed/${ID}${ROUND:-r2}/_out/$v ]; then mkdir -p /verif/seeded/$ID-${ROUND:-r2}$v; cp -r /tmp/seed/${ID}${ROUND:-r2}/_out/$v/. /verif/seeded/$ID-${ROUND:-r2}$v/; fi
done
git -C /repo worktree remove --force /tmp/seed/${ID}${ROUND:-r2} 2>/dev/null; git -C /repo worktree prune
for v in a b c; do
  [ -f /verif/seeded/$ID-${ROUND:-r2}$v/patch.diff ] && /verif/tools/try_seed.sh $ID-${ROUND:-r2}$v "$@" 2>&1 | grep -E "^SEED|class:|does not apply" | head -6
done
