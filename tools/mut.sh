#!/bin/bash
# tools/mut.sh <file-in-repo> <python-expr old> <new> <ID>...  : apply a textual mutant, run quick checks, revert
set -u
export VCHECK_EVIDENCE_DIR=/tmp/vcheck-trial-evidence   # never overwrite /verif/evidence from a broken tree
F="/repo/$1"; OLD="$2"; NEW="$3"; shift 3
cd /repo; if ! git diff --quiet; then echo "repo dirty" >&2; exit 2; fi
python3 - "$F" "$OLD" "$NEW" <<'PY'
import sys
f,old,new=sys.argv[1:4]
s=open(f).read()
if old not in s: print("MUTANT: pattern not found"); sys.exit(3)
open(f,'w').write(s.replace(old,new,1))
PY
[ $? -eq 0 ] || exit 2
for ID in "$@"; do
  OUT=$(cd /verif && ./check "$ID" quick 2>&1); RC=$?
  echo "MUT $1 :: $ID exit=$RC :: $(echo "$OUT" | grep -E 'class:' | head -3 | tr '\n' ' ')"
  echo "$OUT" | grep -E "INCONCLUSIVE|build failed" | head -3
done
git checkout -- .
