#!/bin/bash
# tools/try_seed.sh <seed-dir-name> <ID> [<ID>...]   apply seeded/<name>/patch.diff to /repo, run the quick checks, undo.
set -u
export VCHECK_EVIDENCE_DIR=/tmp/vcheck-trial-evidence   # never overwrite /verif/evidence from a broken tree
NAME="$1"; shift
PATCH="/verif/seeded/$NAME/patch.diff"
cd /repo || exit 2
if ! git diff --quiet; then echo "try_seed: /repo has uncommitted changes" >&2; exit 2; fi
if git apply --check "$PATCH" 2>/dev/null; then
  git apply "$PATCH"
elif patch -p1 -F3 --dry-run -s < "$PATCH" >/dev/null 2>&1; then
  patch -p1 -F3 -s --no-backup-if-mismatch < "$PATCH"
else
  echo "try_seed: $PATCH does not apply" >&2; exit 2
fi
RESULT=""
for ID in "$@"; do
  OUT=$(cd /verif && VERIF_TIER=quick ./check "$ID" "${TIER:-quick}" 2>&1); RC=$?
  RESULT="$RESULT $ID=$RC"
  echo "---- $NAME vs $ID: exit $RC"
  echo "$OUT" | grep -E "VIOLATION|class:|INCONCLUSIVE|vcheck\[" | head -8
done
git checkout -- . 
git status --short | grep -v '^??' 
echo "SEED $NAME:$RESULT"
