#!/bin/bash
# tools/iso.sh setup | sync | try <seed-dir-name> <ID>... | take <ID> <ID>... | teardown
# Seed trials against a scratch worktree of /repo and a scratch copy of /verif ($ISO, default /tmp/iso), for the times
# when /repo itself is in use by a long run.  Evidence of these trials goes to /tmp/vcheck-trial-evidence.
set -u
ISO="${ISO:-/tmp/iso}"
sync_verif() {
  mkdir -p "$ISO/verif"
  rsync -a --delete --exclude target --exclude work --exclude replays --exclude .git --exclude evidence /verif/ "$ISO/verif/"
  sed -i "s#\"/repo/#\"$ISO/repo/#g" "$ISO/verif/harness/Cargo.toml"
  sed -i "s#--manifest-path /repo/#--manifest-path $ISO/repo/#" "$ISO/verif/check"
}
case "${1:-}" in
  setup)
    mkdir -p "$ISO"
    git -C /repo worktree add --detach "$ISO/repo" HEAD >/dev/null || exit 2
    sync_verif
    (cd "$ISO/verif" && ./check setup) ;;
  sync) sync_verif ;;
  try)
    shift; NAME="$1"; shift
    export VCHECK_EVIDENCE_DIR=/tmp/vcheck-trial-evidence
    PATCH="/verif/seeded/$NAME/patch.diff"
    cd "$ISO/repo" || exit 2
    git checkout -- . 
    if git apply --check "$PATCH" 2>/dev/null; then git apply "$PATCH"; else echo "iso: $PATCH does not apply" >&2; exit 2; fi
    RESULT=""
    for ID in "$@"; do
      OUT=$(cd "$ISO/verif" && ./check "$ID" "${TIER:-quick}" 2>&1); RC=$?
      RESULT="$RESULT $ID=$RC"
      echo "$OUT" | grep -E "class:|INCONCLUSIVE|vcheck\[" | head -6
    done
    git checkout -- .
    echo "SEED $NAME:$RESULT" ;;
  take)
    shift; ID="$1"; shift
    R="${ROUND:-r6}"
    for v in a b c; do
      if [ -d /tmp/seed/${ID}${R}/_out/$v ]; then mkdir -p /verif/seeded/$ID-${R}$v; cp -r /tmp/seed/${ID}${R}/_out/$v/. /verif/seeded/$ID-${R}$v/; fi
    done
    git -C /repo worktree remove --force /tmp/seed/${ID}${R} 2>/dev/null; git -C /repo worktree prune
    for v in a b c; do
      [ -f /verif/seeded/$ID-${R}$v/patch.diff ] && "$0" try $ID-${R}$v "$@" 2>&1 | grep -E "^SEED|class:|does not apply" | head -6
    done ;;
  teardown)
    git -C /repo worktree remove --force "$ISO/repo" 2>/dev/null; git -C /repo worktree prune; rm -rf "$ISO" ;;
  *) echo "usage: tools/iso.sh setup|sync|try <seed> <ID>...|take <ID> <ID>...|teardown" >&2; exit 2 ;;
esac
