#!/bin/bash
# tools/sweep_seeds.sh [pattern...] : apply every seeded change (seeded/<ID>-*/patch.diff) in turn, run the quick check of its own
# property, revert; appends to seeded/SWEEP.md as it goes (seed, exit status, first classes).  /repo must be clean and otherwise unused.
cd /verif
OUT=/verif/seeded/SWEEP.md
if [ ! -s "$OUT" ] || [ "${FRESH:-1}" = "1" ]; then
  echo "| seed | own check | exit | classes reported (first three) |" > "$OUT"
  echo "|---|---|---|---|" >> "$OUT"
fi
LIST=$(cd seeded && ls -d */ | tr -d / | awk '{ n=$0; r=1; if (n ~ /-r[0-9]/) { r=substr(n, index(n,"-r")+2, 1) } print r, n }' | sort -k1,1n -k2,2 | awk '{print $2}')
for name in $LIST; do
  id="${name%%-*}"
  [ -f "seeded/$name/patch.diff" ] || continue
  if [ $# -gt 0 ]; then m=0; for p in "$@"; do case "$name" in $p) m=1;; esac; done; [ $m = 1 ] || continue; fi
  res=$(tools/try_seed.sh "$name" "$id" 2>&1)
  rc=$(echo "$res" | grep -oE "^SEED $name: $id=[0-9]+" | grep -oE "[0-9]+$")
  if echo "$res" | grep -q "does not apply"; then rc="n/a"; fi
  classes=$(echo "$res" | grep -E "^  class:" | sed 's/^  class: //' | head -3 | tr '\n' ';' | sed 's/;$//; s/;/; /g')
  echo "| $name | $id quick | ${rc:-?} | ${classes:-—} |" >> "$OUT"
  echo "$name -> ${rc:-?} $classes"
done
