#!/bin/bash
# tools/sweep_seeds.sh [pattern] : apply every seeded change (seeded/<ID>-*/patch.diff) in turn, run the quick check of its own
# property, revert; writes seeded/SWEEP.md (seed, exit status, first classes).  /repo must be clean and otherwise unused meanwhile.
cd /verif
PAT="${1:-*}"
OUT=/verif/seeded/SWEEP.md
TMP=$(mktemp)
echo "| seed | own check | exit | classes reported (first three) |" > "$TMP"
echo "|---|---|---|---|" >> "$TMP"
for d in seeded/$PAT/; do
  name=$(basename "$d"); id="${name%%-*}"
  [ -f "$d/patch.diff" ] || continue
  res=$(tools/try_seed.sh "$name" "$id" 2>&1)
  rc=$(echo "$res" | grep -oE "^SEED $name: $id=[0-9]+" | grep -oE "[0-9]+$")
  classes=$(echo "$res" | grep -E "^  class:" | sed 's/^  class: //' | head -3 | tr '\n' ';' | sed 's/;$//; s/;/; /g')
  echo "| $name | $id quick | ${rc:-?} | ${classes:-—} |" >> "$TMP"
  echo "$name -> ${rc:-?} $classes"
done
mv "$TMP" "$OUT"
